#!/usr/bin/env python3
"""Regenerate /verif/MANIFEST.json from the table below (keeps it schema-valid at all times)."""
import json
import os

PROPS = [json.loads(l) for l in open("/verif/properties.jsonl")]

TRACE_NOTE = ("Trusted base: TLC; the harness that builds classes from abstract definitions and records "
              "call/return/callback lines (lib/harness.py); exhaustive only within the stated small bounds, "
              "random and TLC-generated behaviours beyond them.")

CHECKS = {
    "C01": dict(
        category="model_checking",
        text=("TLC checks FirstEnabledWins / NoCandidateOutcome / CurOnlyInAssign on System.tla exhaustively over a "
              "family of small definitions x all guard valuations x rtc x allow x known/unknown events; every distinct "
              "quiescent end state of that model is replayed on the real library, and thousands of random multi-candidate "
              "machines (both engines) are executed and each recorded execution is validated by TLC as a behaviour of the spec."),
        design_ref="DESIGN.md 5 C01",
        technique="TLA+ spec (Engine/System) + TLC exhaustive MC + TLC trace validation of real executions + replay of TLC behaviours",
    ),
}

NA_DEFAULT = "check not built yet (work in progress; will be claimed once its TLA+ model and conformance harness are committed)"
NA = {}


def main():
    checks = []
    for p in PROPS:
        pid = p["id"]
        if pid not in CHECKS:
            continue
        c = CHECKS[pid]
        checks.append({
            "property_id": pid,
            "quick_cmd": f"./check {pid} --tier quick",
            "thorough_cmd": f"./check {pid} --tier thorough",
            "evidence_file": f"/verif/evidence/{pid}.json",
            "replay_cmd_template": f"./check {pid} --replay {{path}}",
            "engine": c.get("engine", "tlc-system"),
            "level_claimed": {"category": c["category"], "text": c["text"], "design_ref": c["design_ref"]},
            "level_note": c.get("note", TRACE_NOTE),
            "technique": c["technique"],
        })
    m = {
        "version": 1,
        "setup_cmd": "cd /verif && ./setup.sh",
        "hooks": {
            "guard": "PYTHON_STATEMACHINE_VERIF",
            "enable": "no source hooks: observation through harness-owned callbacks, the public API, sys.settrace and a custom event loop",
            "baseline_off_cmd": "cd /repo && /venv/bin/python -m pytest -ra -q -p no:cacheprovider --timeout=900 --continue-on-collection-errors; rc=$?; git -C /repo checkout -- docs/images 2>/dev/null; exit $rc",
            "source_commits": [],
            "add_only": True,
        },
        "engines": [
            {"name": "tlc-system", "path": "/verif/spec/System.tla",
             "serves_properties": [p for p in CHECKS if CHECKS[p].get("engine", "tlc-system") == "tlc-system"],
             "kind_free_text": "explicit TLA+ specification (Engine.tla/System.tla), TLC exhaustive model checking (MC_System), batched TLC trace validation of executions recorded from the real library (Trace_System)"},
        ],
        "checks": checks,
        "notes": "All checks: ./check <id> --tier quick|thorough; evidence in /verif/evidence/<id>.json; known findings in /verif/known_findings.json.",
        "not_applicable": [{"property_id": p["id"], "reason": NA.get(p["id"], NA_DEFAULT)}
                           for p in PROPS if p["id"] not in CHECKS],
    }
    with open("/verif/MANIFEST.json", "w") as f:
        json.dump(m, f, indent=1)
    print("MANIFEST.json:", len(checks), "checks,", len(m["not_applicable"]), "not applicable")


main()
