#!/usr/bin/env python3
"""Regenerate /verif/MANIFEST.json from the table below (keeps it schema-valid at all times)."""
import json
import os

PROPS = [json.loads(l) for l in open("/verif/properties.jsonl")]

TRACE_NOTE = ("Trusted base: TLC; the harness that builds classes from abstract definitions and records "
              "call/return/callback lines (lib/harness.py); exhaustive only within the stated small bounds, "
              "random and TLC-generated behaviours beyond them.")

CHECKS = {
    "C01": dict(
        category="model_checking",
        text=("TLC checks FirstEnabledWins / NoCandidateOutcome / CurOnlyInAssign on System.tla exhaustively over a "
              "family of small definitions x all guard valuations x rtc x allow x known/unknown events; every distinct "
              "quiescent end state of that model is replayed on the real library, and thousands of random multi-candidate "
              "machines (both engines) are executed and each recorded execution is validated by TLC as a behaviour of the spec."),
        design_ref="DESIGN.md 5 C01",
        technique="TLA+ spec (Engine/System) + TLC exhaustive MC + TLC trace validation of real executions + replay of TLC behaviours",
    ),
    "C02": dict(
        category="model_checking",
        text=("TLC checks PhaseOrder / PendingWellFormed / ViewOK on System.tla over small definitions with every callback kind and all "
              "in-group orders; the trace spec accepts a callback begin only if that callback is pending in the current phase of the "
              "selected transition (event scoping, internal transitions, initial activation included) with the injected "
              "state/source/target/event and the current state the callback reads; validated on TLC-generated behaviours and on "
              "thousands of random machines using every attachment style x provider on both engines."),
        design_ref="DESIGN.md 5 C02",
        technique="TLA+ spec + TLC exhaustive MC + TLC trace validation of real executions (callback begin/end lines)",
    ),
    "C03": dict(
        category="model_checking",
        text=("TLC checks RTCNoNesting (stack bound independent of chain length), QueueFIFO and result delivery over all placements of "
              "nested sends in small definitions; real executions with nested sends in every group (incl. initial enter), fan-out, "
              "rtc on/off and both engines are validated line by line (queued vs depth-first, None vs own result, first result to the "
              "outer caller); self-triggering chains of 1500-5000 events must run at constant Python stack depth."),
        design_ref="DESIGN.md 5 C03",
        technique="TLA+ spec + TLC exhaustive MC + TLC trace validation + long-chain stack-depth measurement",
    ),
    "C04": dict(
        category="model_checking",
        text=("Fault enumeration inside the model (TLC: every callback invocation of every behaviour may raise; FailureState, Quiescent, "
              "DroppedNeverRun) and on the real code: each scenario is run once per crash point (k-th callback invocation raises) and "
              "continued with further sends; every execution is validated against the spec, so wrong state after failure, a queue "
              "that is not cleared, a lock that is not released or a swallowed exception make the trace unexplainable.  The failure "
              "path is also explored with a second sender around (real threads stepped at line boundaries, <=2 preemptions, validated "
              "against Dispatch.tla): what the failing call drops stays dropped and nothing is stranded."),
        design_ref="DESIGN.md 5 C04",
        technique="TLA+ spec + TLC exhaustive MC with failure budget + crash-point sweep on the implementation validated by TLC",
    ),
    "C05": dict(
        category="model_checking",
        text=("One specification for both engines (async changes three explicit switches); TLC explores all in-group interleavings of "
              "gathered coroutine callbacks; scenarios from the C01-C04/C14 generators are run as twins (plain functions vs all / single / "
              "mixed coroutines, 0-2 suspensions, drivers: no loop, in-loop, threads in turn), each execution validated against the same "
              "trace spec (a phase may not be left while a started coroutine is open), twins compared pairwise, pending tasks detected."),
        design_ref="DESIGN.md 5 C05",
        technique="TLA+ spec shared by both engines + TLC MC + TLC trace validation of twin executions + orphan-task detection",
    ),
    "C06": dict(
        category="model_checking",
        engine="tlc-dispatch",
        text=("Dispatch.tla models put / try-acquire / check / pop / run / clear / release / re-check for N senders at statement grain in "
              "threads and asyncio modes; TLC checks Mutex, ExactlyOnce, SenderFIFO, NothingStranded, DroppedNeverRun, LockOwner exhaustively "
              "(2x2, 3x1, thorough 3x2 senders x events; nested send, failure) and keeps the counterexamples of the rejected protocol "
              "variants; it also checks that Dispatch refines the counter abstraction DispatchCore.tla, for which Apalache proves an "
              "inductive invariant implying NothingStranded for 3 senders and an unbounded number of events. Real OS threads stepped at every line boundary of the dispatch code (all schedules with <=2-3 preemptions) and "
              "asyncio tasks stepped one ready handle at a time (all choice sequences) are validated by TLC against Trace_Dispatch.tla; "
              "TLC-sampled schedules are replayed on real threads by statement label.  Plans: plain, nested send, failing callback, a "
              "tolerant machine with a gated sender (its event only exists after the first move: Skip / ignored), a callback-less "
              "listener attached from inside a callback; the returns of the engine's put() and of queue.clear() are observed through "
              "the tracer, so the order of acceptance is not inferred."),
        design_ref="DESIGN.md 5 C06",
        technique="TLA+ spec of the dispatch protocol + TLC exhaustive MC + systematic schedule exploration of real threads/tasks validated by TLC",
        note=("Trusted base: TLC; sys.settrace line stepping of real threads and the one-handle-per-iteration event loop (lib/dispatch.py); "
              "a source line is the explored unit of atomicity; bounded number of preemptions; CPython atomicity of deque/Lock operations."),
    ),
    "C07": dict(
        category="model_checking",
        engine="tlc-bind",
        text=("Bind.tla transcribes argument injection (Layer: reserved names stripped, built-ins of the event in progress added; Bind: "
              "slot-aligned positional phase, by-name phase, var-positional/var-keyword leftovers, `missing` only when nothing supplies a "
              "required parameter) and TLC evaluates it, with a sanity theorem, for every enumerated (signature, call shape): all legal "
              "signature shapes up to 3-4 parameters x 0-3 positionals x keyword subsets incl. undeclared names and attempted overrides of "
              "built-ins. Each case is executed as a real exec-generated callable (method on machine/model/listener, function, partial, "
              "coroutine) in a random callback group through a real event; the recorded locals must equal the spec's binding, value by value "
              "and by identity (sent values include None and the other falsy singletons). All callables "
              "share one qualified name so that signature-cache collisions would show."),
        design_ref="DESIGN.md 5 C07",
        technique="TLA+ transcription of the binding rule evaluated by TLC as oracle over an enumerated signature x call-shape space; differential execution on the implementation",
        note="Trusted base: TLC evaluating Bind.tla; exec-generated callables recording their locals; one documented corner (positional-only parameter addressed by name) is left unspecified and skipped.",
    ),
    "C08": dict(
        category="model_checking",
        engine="tlc-guardexpr",
        text=("GuardExpr.tla transcribes the guard semantics (typed values, Eval with short-circuit/operand values/chained comparisons/read order, "
              "Enabled for cond/unless lists, Render by Python's precedence, a precedence-climbing Parse, RoundTrip, WellFormed); TLC evaluates "
              "these operators for every case (all expressions with <=3 leaves exhaustively, random ASTs of depth<=3, guard lists, token "
              "mutations) and the harness runs every case through real machines in every spelling/whitespace mode with names that contain "
              "`v`/keywords, provided by 7 provider kinds, as cond= and unless=: fired-or-not, first-read order and instantiation-time "
              "rejection must equal the spec. The spec itself is self-tested against Python's eval."),
        design_ref="DESIGN.md 5 C08",
        technique="TLA+ transcription of the guard grammar/semantics evaluated by TLC as oracle over an enumerated case space; differential execution on the implementation",
        note="Trusted base: TLC evaluating GuardExpr.tla; the token->text concretiser (lib/checks/c08.py), itself cross-checked through Python's eval; exhaustive only for the stated small scope.",
    ),
    "C09": dict(
        category="model_checking",
        engine="tlc-validate",
        text=("Validate.tla defines Verdict(g, strict) (rejection reasons; strict-or-warn conditions; Reach as transitive closure over directed "
              "transitions; from_.any() expansion); TLC evaluates it for every graph of an exhaustively enumerated space (all graphs over 1-3 "
              "states x all flag assignments x all edge sets x strict; thorough: all 4-state graphs with fixed initial state, sampled 5-state) "
              "plus doubled edges / internal flags / any(); each class statement is executed for real under warnings capture and outcome, "
              "warning kinds and the states they name must equal the verdict - both directions of the iff."),
        design_ref="DESIGN.md 5 C09",
        technique="TLA+ definition of the acceptance verdict evaluated by TLC over an exhaustively enumerated graph space; differential execution of real class statements",
        note="Trusted base: TLC evaluating Validate.tla; exhaustive within the stated graph sizes.",
    ),
    "C10": dict(
        category="model_checking",
        text=("The spec keeps a single `cur` per instance (the model field) and derives every projection from it; TLC explores outside writes "
              "(setter / direct) interleaved with events and restarts; real histories over all value kinds (str, int incl. 0 and negatives, "
              "empty string, enum, tuple) x model shapes (default, attribute, property, class attribute, falsy objects) x state_field names "
              "are validated: after every call the model field, current_state, current_state_value, is_active of every state, allowed "
              "events and `sm.model is user_model` must equal the spec's projection."),
        design_ref="DESIGN.md 5 C10",
        technique="TLA+ spec + TLC MC with outside writes + TLC trace validation of the full projection after every call",
    ),
    "C11": dict(
        category="model_checking",
        text=("TLC checks InitOnlyFromNoState / ResumeRunsNothing / ActivatedBeforeFirstEvent over construction with every stored value, "
              "start_value, re-activation and restart; real histories (construction over every state, 0-3 re-activations, restarts after "
              "random histories, async machines with events before/after explicit activation, rtc on/off) are validated against the spec, "
              "including every callback that runs inside the constructor."),
        design_ref="DESIGN.md 5 C11",
        technique="TLA+ spec + TLC MC with restart/activate actions + TLC trace validation of construction-time callbacks",
    ),
    "C12": dict(
        category="model_checking",
        text=("In the spec every callback names its provider and an instance holds a provider SET (AddListener = union); the trace spec accepts a "
              "callback begin only if its provider is attached to the instance being processed and the provider object belongs to that "
              "instance; executions with names distributed and duplicated over machine/model/constructor listeners/late listeners, repeated "
              "attachment, two instances of one class with different listeners, sync/async listener methods are validated against it."),
        design_ref="DESIGN.md 5 C12",
        technique="TLA+ spec (provider sets) + TLC MC + TLC trace validation of per-provider callback lines",
    ),
    "C13": dict(
        category="model_checking",
        text=("All calling styles are mapped to the one ExtCall action of the spec, so histories mixing send / event methods / items of events "
              "and allowed_events / bind_events_to / MachineMixin triggers must all be behaviours of the same model; allowed_events and "
              "events are compared after every call; unknown names (every attribute name from dir(sm) at run time, state ids, dunders, odd "
              "strings) must end in the no-candidate outcome with the whole projection unchanged, and a spy detects silent invocations."),
        design_ref="DESIGN.md 5 C13",
        technique="TLA+ spec (single ExtCall action) + TLC MC + TLC trace validation over all calling styles and run-time attribute names",
    ),
    "C14": dict(
        category="model_checking",
        text=("Result rule (MkRes, Deliver) in the spec; real callbacks return unique objects so the recorder classifies an event's result by "
              "identity; executions with 0-3 before x 0-3 on callbacks in every style/provider, marker values in all other groups, "
              "tolerated unknown events, both engines, are validated against the spec."),
        design_ref="DESIGN.md 5 C14",
        technique="TLA+ spec + TLC MC + TLC trace validation with identity-classified results",
    ),    "C15": dict(
        category="model_checking",
        engine="tlc-decl",
        text=("Decl.tla gives the declaration DSL a formal meaning (Normalize: statements -> states, per-state transition sequences with event "
              "lists/internal flags/guards, event set, incl. the moment from_.any() is expanded); for every abstract machine and every rendering "
              "(to/from_, multi-target, multi-source, itself, all `|` associations, event= as string/list/Event, attribute/Event()/decorated "
              "events, any() vs explicit, States.from_enum/States({}) vs attributes, base+subclass) TLC checks Normalize(rendering) = machine; "
              "each rendering is executed through the real DSL and metaclass, the structure read back from the class must equal Normalize, and "
              "event histories x guard valuations on every rendering are validated by TLC as behaviours of System.tla instantiated with the one "
              "abstract machine."),
        design_ref="DESIGN.md 5 C15",
        technique="TLA+ semantics of the declaration DSL evaluated by TLC + structure read-back + TLC trace validation against the one abstract machine",
        note="Trusted base: TLC evaluating Decl.tla and Trace_System; the renderers/interpreter in lib/checks/c15.py (cross-checked by Normalize(rendering) = machine).",
    ),
    "C16": dict(
        category="model_checking",
        text=("The spec's class table is immutable and each action changes one instance (PropIsolation); programs interleaving class statements "
              "(independent classes, same class/method names with different async-ness, subclasses), instantiation and events on up to three "
              "machines are executed and, after EVERY step, the projection of all instances and the structure of every class object defined "
              "so far (states, events, per-state allowed events and targets) must equal the declared definitions.  A two-instance model "
              "(outside calls on either machine, sends from the callbacks of one to the other: XCall/XQueue/XRet) is checked exhaustively "
              "by TLC (all invariants, PropIsolation) and its behaviours are replayed on two real instances; programs also cover classes "
              "over one shared Enum, crossing vocabularies, attribute-bag providers and machines that drive each other from callbacks."),
        design_ref="DESIGN.md 5 C16",
        technique="TLA+ spec (frame conditions, fixed class table, cross-instance hand-overs) + TLC exhaustive two-instance model with behaviour replay + TLC trace validation of multi-class programs with class probes",
    ),
    "C17": dict(
        category="model_checking",
        text=("Copy(i, j) in the spec makes the clone's machine record equal to the original's (options, provider set, model content, pending "
              "activation) and every later step changes one instance only; real histories with a deepcopy or pickle copy point (also before "
              "activation of an async machine, also copies of copies) and diverging suffixes on original and clones are validated with the "
              "projection of ALL instances compared after every call; clone.model must not be the original's."),
        design_ref="DESIGN.md 5 C17",
        technique="TLA+ spec (Copy action + frame condition) + TLC trace validation of multi-instance executions",
    ),
    "C18": dict(
        category="model_checking",
        engine="tlc-diagram",
        text=("Diagram.tla defines the abstract graph a definition denotes (nodes with final/active marks, initial edge, one edge per external "
              "transition with events and guards, internal transitions inside their state); TLC evaluates it for every (definition, current "
              "state); the pydot object of DotGraphMachine(class)() and of sm._graph() with every state as current state is projected to "
              "the same shape and compared (edges as a bag)."),
        design_ref="DESIGN.md 5 C18",
        technique="TLA+ definition of the abstract diagram evaluated by TLC; differential projection of the real pydot graph",
        note="Trusted base: TLC evaluating Diagram.tla; the pydot->abstract projection (label parsing) in lib/checks/c18.py.",
    ),
}

NA_DEFAULT = "check not built yet (work in progress; will be claimed once its TLA+ model and conformance harness are committed)"
NA = {}


def main():
    checks = []
    for p in PROPS:
        pid = p["id"]
        if pid not in CHECKS:
            continue
        c = CHECKS[pid]
        checks.append({
            "property_id": pid,
            "quick_cmd": f"./check {pid} --tier quick",
            "thorough_cmd": f"./check {pid} --tier thorough",
            "evidence_file": f"/verif/evidence/{pid}.json",
            "replay_cmd_template": f"./check {pid} --replay {{path}}",
            "engine": c.get("engine", "tlc-system"),
            "level_claimed": {"category": c["category"], "text": c["text"], "design_ref": c["design_ref"]},
            "level_note": c.get("note", TRACE_NOTE),
            "technique": c["technique"],
        })
    m = {
        "version": 1,
        "setup_cmd": "cd /verif && ./setup.sh",
        "hooks": {
            "guard": "PYTHON_STATEMACHINE_VERIF",
            "enable": "no source hooks: observation through harness-owned callbacks, the public API, sys.settrace and a custom event loop",
            "baseline_off_cmd": "cd /repo && /venv/bin/python -m pytest -ra -q -p no:cacheprovider --timeout=900 --continue-on-collection-errors; rc=$?; git -C /repo checkout -- docs/images 2>/dev/null; exit $rc",
            "source_commits": [],
            "add_only": True,
        },
        "engines": [
            {"name": "tlc-system", "path": "/verif/spec/System.tla",
             "serves_properties": [p for p in CHECKS if CHECKS[p].get("engine", "tlc-system") == "tlc-system"],
             "kind_free_text": "explicit TLA+ specification (Engine.tla/System.tla), TLC exhaustive model checking (MC_System), batched TLC trace validation of executions recorded from the real library (Trace_System)"},
            {"name": "tlc-bind", "path": "/verif/spec/Bind.tla", "serves_properties": ["C07"],
             "kind_free_text": "TLA+ transcription of callback argument binding evaluated by TLC over harness-enumerated cases (Eval_Bind)"},
            {"name": "tlc-validate", "path": "/verif/spec/Validate.tla", "serves_properties": ["C09"],
             "kind_free_text": "TLA+ definition of class-definition verdicts evaluated by TLC over exhaustively enumerated graphs (Eval_Validate)"},
            {"name": "tlc-diagram", "path": "/verif/spec/Diagram.tla", "serves_properties": ["C18"],
             "kind_free_text": "TLA+ definition of the abstract diagram evaluated by TLC (Eval_Diagram)"},
            {"name": "tlc-decl", "path": "/verif/spec/Decl.tla", "serves_properties": ["C15"],
             "kind_free_text": "TLA+ semantics of the declaration DSL (Normalize) evaluated by TLC over renderings (Eval_Decl) plus Trace_System for behaviour"},
            {"name": "tlc-guardexpr", "path": "/verif/spec/GuardExpr.tla", "serves_properties": ["C08"],
             "kind_free_text": "TLA+ transcription of guard expressions (evaluation, rendering, parsing) evaluated by TLC over harness-enumerated cases (Eval_GuardExpr)"},
            {"name": "tlc-dispatch", "path": "/verif/spec/Dispatch.tla",
             "serves_properties": ["C06"],
             "kind_free_text": "explicit TLA+ specification of the concurrent dispatch protocol, TLC exhaustive model checking, TLC trace validation of systematically scheduled real threads / asyncio tasks (Trace_Dispatch)"},
        ],
        "checks": checks,
        "notes": "All checks: ./check <id> --tier quick|thorough; evidence in /verif/evidence/<id>.json; known findings in /verif/known_findings.json.",
        "not_applicable": [{"property_id": p["id"], "reason": NA.get(p["id"], NA_DEFAULT)}
                           for p in PROPS if p["id"] not in CHECKS],
    }
    with open("/verif/MANIFEST.json", "w") as f:
        json.dump(m, f, indent=1)
    print("MANIFEST.json:", len(checks), "checks,", len(m["not_applicable"]), "not applicable")


main()
