#!/bin/sh
# usage: tools/tier_all.sh <tier> "<checks>"  -- run the given tier of each check in turn, one line each (rc, wall time)
cd "$(dirname "$(readlink -f "$0")")/.."
for c in $2; do
  S=$(date +%s); ./check $c --tier $1 > /tmp/tier_${1}_$c.log 2>&1; rc=$?; E=$(date +%s)
  echo "$c $1 rc=$rc wall=$((E-S))s $(grep -v '^KNOWN\|^  ' /tmp/tier_${1}_$c.log | tail -1 | cut -c1-200)"
  if [ $rc -ne 0 ]; then grep '^VIOLATION\|Error\|^  ' /tmp/tier_${1}_$c.log | head -6 | cut -c1-300; fi
done
