#!/bin/sh
# usage: tools/seeded.sh <Cxx> <worktree> [tier] [name]     (name: directory under seeded/, default <Cxx>)
# Confirms a seeded change produced in a scratch worktree (suite passes with it, demo passes without / fails with it),
# stores it under /verif/seeded/<id>/, runs ./check <Cxx> against the changed tree (VERIF_REPO = the worktree) and records the outcome.
ID=$1; WT=$2; TIER=${3:-quick}; NAME=${4:-$ID}
DST=/verif/seeded/$NAME; mkdir -p $DST
DEMO=$(ls $WT/demo*.py | head -1)
[ -n "$DEMO" ] || { echo "no demo in $WT"; exit 2; }
cp $WT/patch.diff $DST/patch.diff; cp $DEMO $DST/; cp $WT/NOTES.md $DST/NOTES.md 2>/dev/null
cd $WT
git diff --quiet -- statemachine && git apply $DST/patch.diff
SUITE=$(/venv/bin/python -m pytest -q -p no:cacheprovider --timeout=900 2>&1 | tail -1); git checkout -- docs/images 2>/dev/null
timeout 300 /venv/bin/python $(basename $DEMO) > /tmp/seeded_demo_with.log 2>&1 < /dev/null; WITH=$?
git apply -R $DST/patch.diff   # (git stash is shared between worktrees: never use it here)
timeout 300 /venv/bin/python $(basename $DEMO) > /tmp/seeded_demo_without.log 2>&1 < /dev/null; WITHOUT=$?
git apply $DST/patch.diff
echo "suite with change: $SUITE"; echo "demo with change: exit $WITH; without: exit $WITHOUT"
# the check runs against the scratch worktree itself (it holds /repo's tree plus the change): /repo is not touched
LOG=$(mktemp /tmp/seeded_check_XXXXXX.log)
cd /verif && VERIF_REPO=$WT ./check $ID --tier $TIER > $LOG 2>&1; RC=$?
NV=$(grep -c '^VIOLATION' $LOG)
echo "check $ID $TIER on seeded change ($NAME): rc=$RC violations=$NV"; grep -A6 'violating cases by feature' $LOG | cut -c1-220; grep '^  ' $LOG | grep -v ' x ' | head -2 | cut -c1-300
python3 - <<PY
import json
json.dump({"property": "$ID", "suite_with_change": "$SUITE", "demo_exit_with_change": $WITH, "demo_exit_without_change": $WITHOUT,
           "check": "./check $ID --tier $TIER", "check_exit": $RC, "violation_lines": $NV,
           "ran": ["pytest in scratch worktree with the change", "demo with and without the change (git apply -R)",
                   "./check $ID --tier $TIER against the tree with the change (VERIF_REPO=<scratch worktree>; first waves: git -C /repo apply, check, git -C /repo checkout -- .)"]},
          open("$DST/meta.json", "w"), indent=1)
PY
rm -f $LOG
