#!/bin/sh
# usage: tools/mutant.sh <patch> <Cxx> [tier]   -- apply patch to /repo, run the check, always revert
P=$(realpath "$1"); ID=$2; TIER=${3:-quick}
git -C /repo diff --quiet || { echo "/repo dirty"; exit 2; }
git -C /repo apply "$P" || { echo "patch does not apply"; exit 2; }
cd /verif && ./check "$ID" --tier "$TIER" > /tmp/mut_$$.log 2>&1; RC=$?
git -C /repo checkout -- .
echo "mutant $(basename $P) on $ID: rc=$RC $(grep -c '^VIOLATION' /tmp/mut_$$.log) violation lines; $(grep -c '^KNOWN' /tmp/mut_$$.log) known"
tail -2 /tmp/mut_$$.log | cut -c1-300
rm -f /tmp/mut_$$.log
