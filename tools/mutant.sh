#!/bin/sh
# usage: tools/mutant.sh <patch> <Cxx> [tier]   -- run a check against a scratch copy of /repo's working tree with the
# patch applied (VERIF_REPO); /repo itself is not touched, so several of these can run side by side
P=$(realpath "$1"); ID=$2; TIER=${3:-quick}
W=$(mktemp -d /tmp/mut_XXXXXX)
rsync -a --exclude .git --exclude docs --exclude tests /repo/ $W/repo/
( cd $W/repo && patch -p1 -s < "$P" ) || { echo "patch does not apply"; rm -rf $W; exit 2; }
cd /verif && VERIF_REPO=$W/repo ./check "$ID" --tier "$TIER" > $W/log 2>&1; RC=$?
echo "mutant $(basename $(dirname $P))/$(basename $P) on $ID: rc=$RC $(grep -c '^VIOLATION' $W/log) violation lines; $(grep -c '^KNOWN' $W/log) known"
grep -A3 'violating cases by feature' $W/log | cut -c1-260
tail -2 $W/log | cut -c1-300
rm -rf $W
