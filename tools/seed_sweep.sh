#!/bin/sh
# usage: tools/seed_sweep.sh "<seeds>" "<checks>"  -- run quick checks under several seeds, print one line each
cd "$(dirname "$(readlink -f "$0")")/.."
for s in $1; do for c in $2; do
  VERIF_SEED=$s ./check $c --tier quick > /tmp/sweep_${c}_$s.log 2>&1; rc=$?
  echo "seed=$s $c rc=$rc $(grep -v '^KNOWN\|^  ' /tmp/sweep_${c}_$s.log | tail -1 | cut -c1-140)"
  if [ $rc -ne 0 ]; then grep '^VIOLATION\|Error\|^  ' /tmp/sweep_${c}_$s.log | head -4 | cut -c1-300; fi
done; done
