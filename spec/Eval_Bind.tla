------------------------------ MODULE Eval_Bind ------------------------------
(* TLC evaluates Bind.tla for every (signature, call shape) enumerated by the harness. *)
EXTENDS Bind, Json, IOUtils, TLCExt
VARIABLE x
Batch == JsonDeserialize(IOEnv.BATCH_FILE)
Case(t) ==
    LET c    == Batch[t]
        call == [pos |-> c.pos, kw |-> Layer(c.user, c.builtins)]
        r    == Bind(c.sig, call)
    IN [t |-> t, bound |-> r.bound, varpos |-> r.varpos, varkw |-> r.varkw, missing |-> r.missing,
        unspec |-> r.unspec, sane |-> MissingOnlyWhenUnsupplied(c.sig, call)]
ASSUME \A t \in DOMAIN Batch : PrintT(<<"CASE", ToJson(Case(t))>>)
Init == x = 0
Next == UNCHANGED x
Spec == Init /\ [][Next]_x
=============================================================================
