---------------------------- MODULE Eval_Validate ----------------------------
(* TLC evaluates Validate.Verdict for every graph enumerated by the harness. *)
EXTENDS Validate, Json, IOUtils, TLCExt
VARIABLE x
Batch == JsonDeserialize(IOEnv.BATCH_FILE)
SetToSeq(S) == LET RECURSIVE F(_) F(T) == IF T = {} THEN <<>> ELSE LET e == CHOOSE y \in T : TRUE IN <<e>> \o F(T \ {e}) IN F(S)
Case(t) ==
    LET c == Batch[t]
        v == Verdict(c.g, c.strict)
    IN [t |-> t, accept |-> v.accept, reason |-> v.reason, warn_trap |-> v.warn_trap, warn_nopath |-> v.warn_nopath,
        traps |-> SetToSeq(v.traps), nopath |-> SetToSeq(v.nopath)]
ASSUME \A t \in DOMAIN Batch : PrintT(<<"CASE", ToJson(Case(t))>>)
Init == x = 0
Next == UNCHANGED x
Spec == Init /\ [][Next]_x
=============================================================================
