-------------------------------- MODULE Bind --------------------------------
(***************************************************************************)
(* C07: what a callback receives.                                          *)
(*                                                                         *)
(* sig  : Seq([name, kind, hasdef])  kind in PO (positional-only),         *)
(*        PK (positional-or-keyword), VP (var-positional), KO (keyword-only),       *)
(*        VK (var-keyword); legal Python order is assumed                     *)
(* call : [pos |-> Seq(token), kw |-> Seq([name, val])]  the event's       *)
(*        positional arguments and the keyword arguments AFTER layering    *)
(*                                                                         *)
(* Layer(user, builtins): reserved names are removed from what the user    *)
(* passed and the built-ins of the event in progress are added - a user    *)
(* can neither override nor leak a built-in name.                          *)
(*                                                                         *)
(* Bind(sig, call) is the slot-aligned rule the repository's own table     *)
(* pins: the i-th positional argument is aligned with the i-th positional  *)
(* capable parameter; a same-named keyword overrides the slot (the aligned *)
(* positional argument is consumed); surplus positionals go to var-pos. or  *)
(* are dropped; remaining parameters are filled by name; leftovers go to   *)
(* var-keyword or are dropped.  Nothing surplus ever raises.               *)
(***************************************************************************)
EXTENDS Naturals, Sequences, FiniteSets, TLC

Reserved == {"event_data", "machine", "event", "model", "transition", "state", "source", "target"}

KwNames(kw) == {kw[i].name : i \in DOMAIN kw}
KwGet(kw, n) == kw[CHOOSE i \in DOMAIN kw : kw[i].name = n].val
KwDel(kw, n) == LET keep == {i \in DOMAIN kw : kw[i].name # n}
                    RECURSIVE Build(_, _)
                    Build(i, acc) == IF i > Len(kw) THEN acc
                                     ELSE Build(i + 1, IF i \in keep THEN Append(acc, kw[i]) ELSE acc)
                IN Build(1, <<>>)
RECURSIVE Filter(_, _)
Filter(kw, bad) == IF kw = <<>> THEN <<>>
                   ELSE IF Head(kw).name \in bad THEN Filter(Tail(kw), bad)
                        ELSE <<Head(kw)>> \o Filter(Tail(kw), bad)
Layer(user, builtins) == Filter(user, Reserved) \o builtins

\* result: bound : Seq([name, how, val])  how in "pos" "kw" "default" "missing" "varpos" "varkw"
\*         varpos: Seq(token) given to *args, varkw: Seq([name, val]) given to **kwargs
\*         unspec: the one corner left open (a positional-only parameter that has no positional
\*                 argument while a same-named keyword exists)
NoVal == ""
RECURSIVE Positional(_, _, _, _)
\* walk the parameters while positional arguments remain; returns [bound, rest params, kw, varpos, unspec]
Positional(ps, pos, kw, acc) ==
    IF pos = <<>>
    THEN \* no more positional arguments
         IF ps # <<>> /\ Head(ps).kind = "VP"
         THEN [bound |-> acc, rest |-> Tail(ps), kw |-> kw, varpos |-> <<>>, unspec |-> FALSE]
         ELSE [bound |-> acc, rest |-> ps, kw |-> kw, varpos |-> <<>>,
               unspec |-> ps # <<>> /\ Head(ps).kind = "PO" /\ Head(ps).name \in KwNames(kw)]
    ELSE IF ps = <<>> THEN [bound |-> acc, rest |-> <<>>, kw |-> kw, varpos |-> <<>>, unspec |-> FALSE]
    ELSE LET p == Head(ps) IN
         CASE p.kind = "VK" -> [bound |-> acc, rest |-> ps, kw |-> kw, varpos |-> <<>>, unspec |-> FALSE]
           [] p.kind = "KO" -> [bound |-> acc, rest |-> ps, kw |-> kw, varpos |-> <<>>, unspec |-> FALSE]
           [] p.kind = "VP" -> [bound |-> acc, rest |-> Tail(ps), kw |-> kw, varpos |-> pos, unspec |-> FALSE]
           [] OTHER ->
                IF p.name \in KwNames(kw) /\ p.kind # "PO"
                THEN Positional(Tail(ps), Tail(pos), KwDel(kw, p.name),
                                Append(acc, [name |-> p.name, how |-> "kw", val |-> KwGet(kw, p.name)]))
                ELSE Positional(Tail(ps), Tail(pos), kw,
                                Append(acc, [name |-> p.name, how |-> "pos", val |-> Head(pos)]))

RECURSIVE ByName(_, _, _)
ByName(ps, kw, acc) ==
    IF ps = <<>> THEN [bound |-> acc, kw |-> kw]
    ELSE LET p == Head(ps) IN
         IF p.kind \in {"VP", "VK"} THEN ByName(Tail(ps), kw, acc)
         ELSE IF p.name \in KwNames(kw)
              THEN ByName(Tail(ps), KwDel(kw, p.name), Append(acc, [name |-> p.name, how |-> "kw", val |-> KwGet(kw, p.name)]))
              ELSE ByName(Tail(ps), kw, Append(acc, [name |-> p.name, how |-> IF p.hasdef THEN "default" ELSE "missing", val |-> NoVal]))

HasKind(sig, k) == \E i \in DOMAIN sig : sig[i].kind = k
Bind(sig, call) ==
    LET a == Positional(sig, call.pos, call.kw, <<>>)
        b == ByName(a.rest, a.kw, a.bound)
    IN [bound  |-> b.bound,
        varpos |-> a.varpos,
        varkw  |-> IF HasKind(sig, "VK") THEN b.kw ELSE <<>>,
        missing |-> \E i \in DOMAIN b.bound : b.bound[i].how = "missing",
        \* any positional-only parameter that got no positional argument while a keyword of its name exists
        unspec |-> a.unspec \/ \E i \in DOMAIN a.rest : a.rest[i].kind = "PO" /\ a.rest[i].name \in KwNames(a.kw)]

\* sanity theorem (checked by TLC on every evaluated case): surplus data never makes a parameter
\* missing - a parameter is missing only if it has no default, no positional slot and no keyword
MissingOnlyWhenUnsupplied(sig, call) ==
    LET r == Bind(sig, call) IN
    \A i \in DOMAIN r.bound :
        r.bound[i].how = "missing" =>
            LET idx == CHOOSE j \in DOMAIN sig : sig[j].name = r.bound[i].name IN
            /\ ~sig[idx].hasdef
            /\ sig[idx].name \notin KwNames(call.kw)
            /\ (sig[idx].kind \in {"PO", "PK"} => Cardinality({j \in 1..idx : sig[j].kind \in {"PO", "PK"}}) > Len(call.pos)
                                                   \/ \E j \in 1..idx : sig[j].kind \in {"VP", "KO", "VK"})
=============================================================================
