--------------------------- MODULE Trace_Dispatch ---------------------------
(***************************************************************************)
(* Validation of concurrent executions of the real library (OS threads     *)
(* stepped at line boundaries, asyncio tasks stepped at ready handles)     *)
(* against Dispatch.tla.  Only what a user can observe is logged: the      *)
(* start and return of each send, begin/end of user callbacks tagged with  *)
(* the executing sender and the event being processed, nested sends, and   *)
(* at the end the number of state changes.  put / acquire / check / pop /  *)
(* clear / release / re-check are taken silently: TLC infers them.         *)
(***************************************************************************)
EXTENDS Dispatch, Json, IOUtils, TLCExt

VARIABLES tid, l, sil,
          nwait    \* sender whose callback is inside a nested send whose put has not happened yet (0: none)
tvars == <<pc, sent, queue, locked, cur, running, started, done, failed, dropped, exc, yields,
           nnested, nfails, active, moves, ignored, tid, l, sil, nwait>>

Batch == JsonDeserialize(IOEnv.BATCH_FILE)
NB == Len(Batch)
Lines == Batch[tid].lines
HasLine(e) == l <= Len(Lines) /\ Lines[l].e = e
L == Lines[l]
Consume == l' = l + 1 /\ sil' = 0 /\ UNCHANGED tid
Keep == UNCHANGED nwait
SilentBound == 14

TInit == tid \in 1..NB /\ l = 1 /\ sil = 0 /\ nwait = 0 /\ DInit

LEv == [s |-> L.ev.s, n |-> L.ev.n, nested |-> L.ev.nested]

TCall  == HasLine("call") /\ Start(L.s) /\ sent[L.s] + 1 = L.n /\ Consume /\ Keep
TBegin == HasLine("B") /\ Begin(L.s) /\ cur[L.s] = LEv /\ Consume /\ Keep
\* a nested send is logged at its start (N) and at its return (NR); the put itself is lock-free and
\* happens somewhere in between as an internal step
TNest  == HasLine("N") /\ pc[L.s] = "run" /\ nwait = 0 /\ nwait' = L.s /\ UNCHANGED dvars /\ Consume
\* executions stepped by the line tracer also log the return of the engine's put() (line "put"): then puts are not inferred
HasPuts == \E k \in DOMAIN Lines : Lines[k].e = "put"
TNestPut == /\ ~HasPuts /\ nwait # 0 /\ Nested(nwait) /\ nwait' = 0 /\ sil' = sil /\ UNCHANGED <<tid, l>>
\* ... and the completion of the statement that empties the queue after a failure (line "clr")
HasClrs == \E k \in DOMAIN Lines : Lines[k].e = "clr"
TClr == HasLine("clr") /\ Clear(L.s) /\ Consume /\ Keep
TPut == /\ HasLine("put")
        /\ IF nwait = L.s THEN Nested(nwait) /\ nwait' = 0 ELSE Put(L.s) /\ nwait' = nwait
        /\ Consume
TNestRet == HasLine("NR") /\ nwait = 0 /\ UNCHANGED dvars /\ Consume /\ Keep
TEnd   == HasLine("E") /\ nwait = 0 /\ (IF L.raised THEN Fail(L.s) ELSE End(L.s)) /\ cur[L.s] = LEv /\ Consume /\ Keep
\* only the callback's own exception may come out of a send
TRet   == HasLine("ret") /\ Ret(L.s) /\ exc[L.s] = L.exc /\ "other" \notin DOMAIN L /\ Consume /\ Keep
\* the end of the execution: every sender is back and the machine changed state once per
\* event processed to its end
TFinish == /\ HasLine("end") /\ AllReturned /\ moves = L.moves
           /\ UNCHANGED dvars /\ Consume /\ Keep
TSilent == /\ sil < SilentBound
           /\ \E s \in Senders : (~HasPuts /\ Put(s)) \/ Acquire(s) \/ Check(s) \/ Pop(s) \/ Skip(s) \/ (~HasClrs /\ Clear(s)) \/ Rel(s)
                                   \/ Recheck(s) \/ Yield(s)
           /\ sil' = sil + 1 /\ UNCHANGED <<tid, l>> /\ Keep

TNext == TCall \/ TBegin \/ TPut \/ TClr \/ TNest \/ TNestPut \/ TNestRet \/ TEnd \/ TRet \/ TFinish \/ TSilent
TSpec == TInit /\ [][TNext]_tvars

InvFailed == IF ~Mutex THEN 1 ELSE IF ~ExactlyOnce THEN 2 ELSE IF ~SenderFIFO THEN 3
             ELSE IF ~NothingStranded THEN 4 ELSE IF ~DroppedNeverRun THEN 5 ELSE IF ~LockOwner THEN 6 ELSE 0
Progress ==
    /\ (IF TLCGet(tid) < l THEN TLCSet(tid, l) ELSE TRUE)
    /\ (IF InvFailed # 0
        THEN (IF TLCGet(NB + tid) = 0 THEN TLCSet(NB + tid, InvFailed) ELSE TRUE) /\ FALSE
        ELSE TRUE)
ASSUME \A t \in 1..(2 * NB) : TLCSet(t, 0)
Verdicts ==
    /\ TLCGet("stats").diameter >= 0
    /\ \A t \in 1..NB :
         PrintT(<<IF TLCGet(t) = Len(Batch[t].lines) + 1 /\ TLCGet(NB + t) = 0 THEN "ACCEPT" ELSE "REJECT",
                  t, TLCGet(t), TLCGet(NB + t)>>)
=============================================================================
