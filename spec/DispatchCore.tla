---------------------------- MODULE DispatchCore ----------------------------
(***************************************************************************)
(* Counter abstraction of Dispatch.tla (threads mode): the queue is its    *)
(* length, events have no identity, every sender may send any number of    *)
(* events.  Used with Apalache to check that Inv is an INDUCTIVE invariant *)
(* of the implemented protocol (SecondLook = TRUE), i.e. NothingStranded for  *)
(* an unbounded number of events per sender - and that it is not inductive *)
(* for the pinned protocol (SecondLook = FALSE).                              *)
(***************************************************************************)
EXTENDS Integers

CONSTANTS
    \* @type: Set(Int);
    Senders,
    \* @type: Bool;
    SecondLook

VARIABLES
    \* @type: Int -> Str;
    pc,
    \* @type: Int;
    qlen,
    \* @type: Bool;
    locked,
    \* @type: Int -> Bool;
    exc

PCs == {"idle", "put", "acq", "chk", "pop", "run", "clr", "rel", "rck", "ret"}
Holding == {"chk", "pop", "run", "clr", "rel"}
\* a sender in one of these will still look at (or clear) the queue before it returns
Working == {"put", "acq", "chk", "pop", "run", "clr", "rel", "rck"}

Init == /\ pc = [s \in Senders |-> "idle"]
        /\ qlen = 0
        /\ locked = FALSE
        /\ exc = [s \in Senders |-> FALSE]

Goto(s, l) == pc' = [pc EXCEPT ![s] = l]

Start(s)   == pc[s] = "idle" /\ Goto(s, "put") /\ UNCHANGED <<qlen, locked, exc>>
Put(s)     == pc[s] = "put" /\ qlen' = qlen + 1 /\ Goto(s, "acq") /\ UNCHANGED <<locked, exc>>
Acquire(s) == /\ pc[s] = "acq"
              /\ IF locked THEN Goto(s, "ret") /\ locked' = locked
                 ELSE Goto(s, "chk") /\ locked' = TRUE
              /\ UNCHANGED <<qlen, exc>>
Check(s)   == pc[s] = "chk" /\ Goto(s, IF qlen > 0 THEN "pop" ELSE "rel") /\ UNCHANGED <<qlen, locked, exc>>
Pop(s)     == pc[s] = "pop" /\ qlen > 0 /\ qlen' = qlen - 1 /\ Goto(s, "run") /\ UNCHANGED <<locked, exc>>
Nested(s)  == pc[s] = "run" /\ qlen' = qlen + 1 /\ UNCHANGED <<pc, locked, exc>>
End(s)     == pc[s] = "run" /\ Goto(s, "chk") /\ UNCHANGED <<qlen, locked, exc>>
Fail(s)    == pc[s] = "run" /\ Goto(s, "clr") /\ exc' = [exc EXCEPT ![s] = TRUE] /\ UNCHANGED <<qlen, locked>>
Clear(s)   == pc[s] = "clr" /\ qlen' = 0 /\ Goto(s, "rel") /\ UNCHANGED <<locked, exc>>
Rel(s)     == pc[s] = "rel" /\ locked' = FALSE /\ Goto(s, IF SecondLook THEN "rck" ELSE "ret") /\ UNCHANGED <<qlen, exc>>
Look(s)    == pc[s] = "rck" /\ Goto(s, IF qlen > 0 THEN "acq" ELSE "ret") /\ UNCHANGED <<qlen, locked, exc>>
Ret(s)     == pc[s] = "ret" /\ Goto(s, "idle") /\ exc' = [exc EXCEPT ![s] = FALSE] /\ UNCHANGED <<qlen, locked>>

Next == \E s \in Senders : \/ Start(s) \/ Put(s) \/ Acquire(s) \/ Check(s) \/ Pop(s) \/ Nested(s) \/ End(s)
                           \/ Fail(s) \/ Clear(s) \/ Rel(s) \/ Look(s) \/ Ret(s)

TypeOK == /\ pc \in [Senders -> PCs]
          /\ qlen \in Nat
          /\ locked \in BOOLEAN
          /\ exc \in [Senders -> BOOLEAN]

\* the lock is held exactly by the one sender inside the loop
LockOwner == /\ locked <=> (\E s \in Senders : pc[s] \in Holding)
             /\ \A s, t \in Senders : (pc[s] \in Holding /\ pc[t] \in Holding) => s = t
\* whatever is queued will still be looked at by somebody
Covered == qlen > 0 => \E s \in Senders : pc[s] \in Working

Inv == TypeOK /\ LockOwner /\ Covered
\* what a user sees: once every sender is back, nothing is queued and the lock is free
NothingStranded == (\A s \in Senders : pc[s] = "idle") => (qlen = 0 /\ ~locked)

\* for the inductive check: start anywhere in Inv
IndInit == Inv
cvars == <<pc, qlen, locked, exc>>
CoreSpec == Init /\ [][Next]_cvars
=============================================================================
