------------------------------ MODULE Dispatch ------------------------------
(***************************************************************************)
(* The dispatch protocol of python-statemachine shared by OS threads (sync *)
(* engine) and asyncio tasks (async engine), at statement grain:           *)
(*                                                                         *)
(*   Event.__call__ :  put (deque.append)                        pc = put  *)
(*   processing_loop:  acquire(blocking=False)  loser -> None    pc = acq  *)
(*                     while queue:                              pc = chk  *)
(*                         td = queue.popleft()                  pc = pop  *)
(*                         _trigger(td): callbacks begin ..end   pc = run  *)
(*                     except: queue.clear(); raise              pc = clr  *)
(*                     finally: release()                        pc = rel  *)
(*                     [look at the queue again]                 pc = rck  *)
(*                     return                                    pc = ret  *)
(*                                                                         *)
(* Variant "pinned"  : no second look (the tree as found)                  *)
(*         "normal"  : second look after release on the normal path only   *)
(*         "both"    : second look after release on both paths (the fix)   *)
(* Mode    "threads" : any sender may take the next step                   *)
(*         "asyncio" : the running task keeps the processor until a        *)
(*                     callback suspends (yield) or the task returns       *)
(***************************************************************************)
EXTENDS Naturals, Sequences, FiniteSets, TLC

CONSTANTS Senders,      \* set of sender ids (model values or naturals)
          PerSender,    \* events each sender sends, one after the other
          Variant, Mode,
          MaxNested,    \* nested sends (from callbacks) per behaviour
          MaxFails,     \* raising callbacks per behaviour
          MaxYields,    \* suspensions per callback (asyncio)
          Gated         \* senders whose events are only enabled once the machine has left its first state (the machine
                        \* tolerates events without transition: such an event, processed too early, is ignored)

VARIABLES pc,        \* [Senders -> STRING]
          sent,      \* [Senders -> Nat]  events already put by the sender itself
          queue,     \* Seq of event records [s, n]
          locked,    \* BOOLEAN
          cur,       \* [Senders -> event record] the event the sender's loop is processing
          running,   \* set of events between callback begin and end
          started,   \* Seq of events in the order their processing began
          done,      \* set of events processed to the end
          failed,    \* set of events whose processing raised
          dropped,   \* set of events removed by queue.clear()
          exc,       \* [Senders -> BOOLEAN] an exception is propagating through the sender's loop
          yields,    \* [Senders -> Nat]
          nnested, nfails,
          active,    \* asyncio: the task that owns the processor (NoSender: none)
          moves,     \* state changes of the machine so far
          ignored    \* events that found no transition when their turn came (tolerated)

dvars == <<pc, sent, queue, locked, cur, running, started, done, failed, dropped, exc, yields,
           nnested, nfails, active, moves, ignored>>

NoEv == [s |-> 0, n |-> 0, nested |-> FALSE]
Ev(s, n) == [s |-> s, n |-> n, nested |-> FALSE]
NEv(k)   == [s |-> 0, n |-> k, nested |-> TRUE]      \* the k-th nested send of the behaviour

DInit == /\ pc = [s \in Senders |-> "idle"]
         /\ sent = [s \in Senders |-> 0]
         /\ queue = <<>>
         /\ locked = FALSE
         /\ cur = [s \in Senders |-> NoEv]
         /\ running = {} /\ started = <<>> /\ done = {} /\ failed = {} /\ dropped = {}
         /\ exc = [s \in Senders |-> FALSE]
         /\ yields = [s \in Senders |-> 0]
         /\ nnested = 0 /\ nfails = 0
         /\ active = 0
         /\ moves = 0 /\ ignored = {}

\* whether an event fires depends on the state of the machine WHEN ITS TURN COMES, never on the state at send time
EnabledEv(ev) == ev.nested \/ ev.s \notin Gated \/ moves >= 1

Goto(s, l) == pc' = [pc EXCEPT ![s] = l]
\* who may take a step
MayStep(s) == Mode = "threads" \/ active = s \/ active = 0
Take(s) == IF Mode = "asyncio" THEN active' = s ELSE active' = active
Release == IF Mode = "asyncio" THEN active' = 0 ELSE active' = active

\* ---- the sender's own call -------------------------------------------------------------
Start(s) == /\ pc[s] = "idle" /\ sent[s] < PerSender /\ MayStep(s)
            /\ Goto(s, "put") /\ Take(s)
            /\ UNCHANGED <<sent, queue, locked, cur, running, started, done, failed, dropped, exc, yields, nnested, nfails, moves, ignored>>

Put(s) == /\ pc[s] = "put" /\ MayStep(s)
          /\ queue' = Append(queue, Ev(s, sent[s] + 1))
          /\ sent' = [sent EXCEPT ![s] = @ + 1]
          /\ Goto(s, "acq") /\ Take(s)
          /\ UNCHANGED <<locked, cur, running, started, done, failed, dropped, exc, yields, nnested, nfails, moves, ignored>>

Acquire(s) == /\ pc[s] = "acq" /\ MayStep(s)
              /\ IF locked THEN Goto(s, "ret") /\ locked' = locked
                 ELSE Goto(s, "chk") /\ locked' = TRUE
              /\ Take(s)
              /\ UNCHANGED <<sent, queue, cur, running, started, done, failed, dropped, exc, yields, nnested, nfails, moves, ignored>>

Check(s) == /\ pc[s] = "chk" /\ MayStep(s)
            /\ Goto(s, IF queue # <<>> THEN "pop" ELSE "rel") /\ Take(s)
            /\ UNCHANGED <<sent, queue, locked, cur, running, started, done, failed, dropped, exc, yields, nnested, nfails, moves, ignored>>

Pop(s) == /\ pc[s] = "pop" /\ MayStep(s) /\ queue # <<>>
          /\ cur' = [cur EXCEPT ![s] = Head(queue)]
          /\ queue' = Tail(queue)
          /\ yields' = [yields EXCEPT ![s] = 0]
          /\ Goto(s, "begin") /\ Take(s)
          /\ UNCHANGED <<sent, locked, running, started, done, failed, dropped, exc, nnested, nfails, moves, ignored>>

\* ---- processing one event: user callbacks begin .. end ------------------------------------
Begin(s) == /\ pc[s] = "begin" /\ MayStep(s) /\ EnabledEv(cur[s])
            /\ running' = running \cup {cur[s]}
            /\ started' = Append(started, cur[s])
            /\ Goto(s, "run") /\ Take(s)
            /\ UNCHANGED <<sent, queue, locked, cur, done, failed, dropped, exc, yields, nnested, nfails, moves, ignored>>

\* no transition for this event in the state the machine is in now: tolerated, nothing runs
Skip(s) == /\ pc[s] = "begin" /\ MayStep(s) /\ ~EnabledEv(cur[s])
           /\ ignored' = ignored \cup {cur[s]}
           /\ Goto(s, "chk") /\ Take(s)
           /\ UNCHANGED <<sent, queue, locked, cur, running, started, done, failed, dropped, exc, yields, nnested, nfails, moves>>

\* a callback sends an event to its own machine: put, and the try-acquire fails (we hold the lock)
Nested(s) == /\ pc[s] = "run" /\ MayStep(s) /\ nnested < MaxNested
             /\ queue' = Append(queue, NEv(nnested + 1))
             /\ nnested' = nnested + 1
             /\ Take(s)
             /\ UNCHANGED <<pc, sent, locked, cur, running, started, done, failed, dropped, exc, yields, nfails, moves, ignored>>

\* asyncio: the holder's task is suspended - inside a coroutine callback, or at the engine's own
\* `await gather(...)` just before the callbacks of a group start ("begin") and right after they end
\* (back at "chk"); there is no await between the final emptiness test and the release.
\* For threads every step is a yield already.
\* A raising callback runs in a gathered child task as well: the holder resumes (at "clr") later.
Yield(s) == /\ pc[s] \in {"begin", "run", "chk", "clr"} /\ Mode = "asyncio" /\ active = s /\ yields[s] < MaxYields
            /\ yields' = [yields EXCEPT ![s] = @ + 1]
            /\ active' = 0
            /\ UNCHANGED <<pc, sent, queue, locked, cur, running, started, done, failed, dropped, exc, nnested, nfails, moves, ignored>>

End(s) == /\ pc[s] = "run" /\ MayStep(s)
          /\ running' = running \ {cur[s]}
          /\ done' = done \cup {cur[s]}
          /\ moves' = moves + 1
          /\ Goto(s, "chk") /\ Take(s)
          /\ UNCHANGED <<sent, queue, locked, cur, started, failed, dropped, exc, yields, nnested, nfails, ignored>>

Fail(s) == /\ pc[s] = "run" /\ MayStep(s) /\ nfails < MaxFails
           /\ running' = running \ {cur[s]}
           /\ failed' = failed \cup {cur[s]}
           /\ nfails' = nfails + 1
           /\ exc' = [exc EXCEPT ![s] = TRUE]
           /\ Goto(s, "clr") /\ Take(s)
           /\ UNCHANGED <<sent, queue, locked, cur, started, done, dropped, yields, nnested, moves, ignored>>

Clear(s) == /\ pc[s] = "clr" /\ MayStep(s)
            /\ dropped' = dropped \cup {queue[i] : i \in DOMAIN queue}
            /\ queue' = <<>>
            /\ Goto(s, "rel") /\ Take(s)
            /\ UNCHANGED <<sent, locked, cur, running, started, done, failed, exc, yields, nnested, nfails, moves, ignored>>

Rel(s) == /\ pc[s] = "rel" /\ MayStep(s)
          /\ locked' = FALSE
          /\ Goto(s, IF Variant = "both" \/ (Variant = "normal" /\ ~exc[s]) THEN "rck" ELSE "ret")
          /\ Take(s)
          /\ UNCHANGED <<sent, queue, cur, running, started, done, failed, dropped, exc, yields, nnested, nfails, moves, ignored>>

\* the second look: somebody may have enqueued after our last look and lost the acquire
Recheck(s) == /\ pc[s] = "rck" /\ MayStep(s)
              /\ Goto(s, IF queue # <<>> THEN "acq" ELSE "ret") /\ Take(s)
              /\ UNCHANGED <<sent, queue, locked, cur, running, started, done, failed, dropped, exc, yields, nnested, nfails, moves, ignored>>

Ret(s) == /\ pc[s] = "ret" /\ MayStep(s)
          /\ Goto(s, "idle")
          /\ exc' = [exc EXCEPT ![s] = FALSE]
          /\ Release
          /\ UNCHANGED <<sent, queue, locked, cur, running, started, done, failed, dropped, yields, nnested, nfails, moves, ignored>>

Step(s) == \/ Start(s) \/ Put(s) \/ Acquire(s) \/ Check(s) \/ Pop(s) \/ Begin(s) \/ Skip(s) \/ Nested(s)
           \/ Yield(s) \/ End(s) \/ Fail(s) \/ Clear(s) \/ Rel(s) \/ Recheck(s) \/ Ret(s)
DNext == \E s \in Senders : Step(s)
DSpec == DInit /\ [][DNext]_dvars

(***************************************************************************)
(* Properties (C06)                                                        *)
(***************************************************************************)
AllReturned == \A s \in Senders : pc[s] = "idle" /\ sent[s] = PerSender
Accepted == {Ev(s, n) : s \in Senders, n \in 1..PerSender} \cup {NEv(k) : k \in 1..MaxNested}
PutSoFar == {Ev(s, n) : s \in Senders, n \in 1..PerSender} \cup {NEv(k) : k \in 1..MaxNested}

\* the callback sequences of different events never overlap
Mutex == Cardinality(running) <= 1
\* nothing is processed twice
ExactlyOnce == \A i, j \in DOMAIN started : i # j => started[i] # started[j]
\* each sender's events are processed in the order it sent them
SenderFIFO == \A i, j \in DOMAIN started :
                 (i < j /\ ~started[i].nested /\ ~started[j].nested /\ started[i].s = started[j].s)
                    => started[i].n < started[j].n
\* once every sender has returned nothing is left: every event that was put has been processed,
\* has failed, or was dropped by the failure of an event processed before it
NothingStranded ==
    AllReturned => /\ queue = <<>>
                   /\ ~locked
                   /\ \A s \in Senders : \A n \in 1..PerSender :
                        Ev(s, n) \in done \cup failed \cup dropped \cup ignored
\* C04 in the concurrent setting: an event removed by clear() never runs later
DroppedNeverRun == \A i \in DOMAIN started : started[i] \notin dropped
\* Dispatch refines its counter abstraction DispatchCore (queue |-> its length, "begin" |-> "run"), whose invariant is
\* proved inductive by Apalache for an unbounded number of events (threads mode; variants both / pinned)
Core == INSTANCE DispatchCore WITH pc <- [s \in Senders |-> IF pc[s] = "begin" THEN "run" ELSE pc[s]],
                                   qlen <- Len(queue), locked <- locked, exc <- exc,
                                   SecondLook <- (Variant = "both")
RefinesCore == Core!CoreSpec

\* the lock is held exactly by the one sender inside the loop
LockOwner == Cardinality({s \in Senders : pc[s] \in {"chk", "pop", "begin", "run", "clr", "rel"}}) = (IF locked THEN 1 ELSE 0)
=============================================================================
