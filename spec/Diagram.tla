------------------------------ MODULE Diagram ------------------------------
(***************************************************************************)
(* C18: the picture of a machine.  Diagram(d, cur) is the abstract graph   *)
(* the DOT output must denote:                                             *)
(*   nodes   : one per state [id, final (double border), active (exactly   *)
(*             the current state of an instance; none for a class)]        *)
(*   initial : the pseudo-node "i" points at the initial state             *)
(*   edges   : one per EXTERNAL transition, in declaration order per       *)
(*             state, [src, tgt, evs (the label's events), guards]         *)
(*   internal: per state, the event lists of its internal transitions      *)
(*             (drawn inside the state, never as an edge)                   *)
(* d is a class definition as in Engine.tla, with d.guards[j] the guard    *)
(* labels of transition j (name, negated for unless).                       *)
(***************************************************************************)
EXTENDS Naturals, Sequences, FiniteSets, TLC

RECURSIVE SelectIdx(_, _, _)
SelectIdx(n, P(_), k) == IF k > n THEN <<>> ELSE (IF P(k) THEN <<k>> ELSE <<>>) \o SelectIdx(n, P, k + 1)

Nodes(d, cur) == [k \in DOMAIN d.states |->
                    [id |-> d.states[k].id, final |-> d.states[k].final, active |-> d.states[k].id = cur]]
ExternalIdx(d) == LET P(j) == ~d.trans[j].internal IN SelectIdx(Len(d.trans), P, 1)
\* edges grouped by source state in state order, declaration order inside a state
EdgesOf(d, s) == LET P(j) == ~d.trans[j].internal /\ d.trans[j].src = s IN SelectIdx(Len(d.trans), P, 1)
RECURSIVE EdgeSeq(_, _)
EdgeSeq(d, k) == IF k > Len(d.states) THEN <<>>
                 ELSE [x \in DOMAIN EdgesOf(d, d.states[k].id) |->
                         LET j == EdgesOf(d, d.states[k].id)[x] IN
                         [src |-> d.trans[j].src, tgt |-> d.trans[j].tgt, evs |-> d.trans[j].evs, guards |-> d.guards[j]]]
                      \o EdgeSeq(d, k + 1)
InternalOf(d, s) == LET P(j) == d.trans[j].internal /\ d.trans[j].src = s
                        idx == SelectIdx(Len(d.trans), P, 1)
                    IN [x \in DOMAIN idx |-> d.trans[idx[x]].evs]
Diagram(d, cur) ==
    [nodes |-> Nodes(d, cur),
     initial |-> d.initial,
     edges |-> EdgeSeq(d, 1),
     internal |-> [k \in DOMAIN d.states |-> InternalOf(d, d.states[k].id)]]
=============================================================================
