------------------------------- MODULE Engine -------------------------------
(***************************************************************************)
(* Small-step semantics of python-statemachine's event processing, written *)
(* as PURE OPERATORS over a machine record m and a class definition d.     *)
(*                                                                         *)
(* One operator pair  En<Label>(d, m, ..) / Do<Label>(d, m, ..)  per        *)
(* critical section of statemachine/engines/sync.py (async_.py is its      *)
(* await-twin; the three differences are the `async` switches below).      *)
(* System.tla lifts the pairs to actions over a table of instances, so the *)
(* same text serves the exhaustive models (mc/) and trace validation       *)
(* (trace/).                                                               *)
(*                                                                         *)
(* Typing discipline: every record field always holds the same kind of     *)
(* value; "no value" is a typed dummy (NoRes, NoExc, "", 0, {}).            *)
(***************************************************************************)
EXTENDS Naturals, Sequences, FiniteSets, TLC

(***************************************************************************)
(* Vocabulary                                                              *)
(***************************************************************************)
GroupSeq == <<"validators", "cond", "before", "exit", "on", "enter", "after">>
IsGroup(p) == \E i \in 1..Len(GroupSeq) : GroupSeq[i] = p
GroupRank(g) == CHOOSE i \in 1..Len(GroupSeq) : GroupSeq[i] = g
\* engine phases of one trigger: select, the seven groups with `assign` between on and enter, done
NextPhase(p) == CASE p = "validators" -> "cond"
                  [] p = "cond"       -> "before"
                  [] p = "before"     -> "exit"
                  [] p = "exit"       -> "on"
                  [] p = "on"         -> "assign"
                  [] p = "enter"      -> "after"
                  [] p = "after"      -> "done"
                  [] OTHER            -> "error"
\* a callback of this phase sees the source as `state` (and, in RTC, as current state)
SeesSource(p) == p \in {"validators", "cond", "before", "exit", "on"}

NoRes    == [k |-> "none", items |-> <<>>]
Sentinel == [k |-> "sentinel", items |-> <<>>]
\* result rule of _activate: 0 -> None, 1 -> unwrapped, else the list (None and "no result"
\* are the same Python value, hence the normalisation of a single "none")
MkRes(items) == IF Len(items) = 0 THEN NoRes
                ELSE IF Len(items) = 1
                     THEN IF items[1] = "none" THEN NoRes ELSE [k |-> "one", items |-> items]
                     ELSE [k |-> "list", items |-> items]

NoExc      == [kind |-> "", ev |-> "", st |-> "", c |-> 0]
TNA(ev, s) == [kind |-> "TNA", ev |-> ev, st |-> s, c |-> 0]
Boom(c)    == [kind |-> "Boom", ev |-> "", st |-> "", c |-> c]
ISV(v)     == [kind |-> "InvalidStateValue", ev |-> "", st |-> v, c |-> 0]
InvDef     == [kind |-> "InvalidDefinition", ev |-> "", st |-> "", c |-> 0]

NoOut        == [k |-> "none", res |-> NoRes, exc |-> NoExc]
RetOut(r)    == [k |-> "ret", res |-> IF r = Sentinel THEN NoRes ELSE r, exc |-> NoExc]
ExcOut(e)    == [k |-> "exc", res |-> NoRes, exc |-> e]

InitTD == [ev |-> "__initial__", init |-> TRUE, id |-> 0]

(***************************************************************************)
(* Definitions (d): states, transitions in DSL call order, events, and the *)
(* callbacks as data.                                                      *)
(*   d.states : Seq([id, initial, final])     declaration order            *)
(*   d.trans  : Seq([src, tgt, evs, internal]) DSL call order              *)
(*   d.events : Seq(STRING)                    declared order              *)
(*   d.initial: id of the initial state                                    *)
(*   d.cbs    : Seq([okind, owner, tix, group, prov, coro, gname,          *)
(*                   expected, ret])                                       *)
(*      okind T : attached to transition tix (validators/cond/unless/      *)
(*                before/on/after given inline, by name, callable or       *)
(*                decorator)                                               *)
(*            E : naming convention before_/on_/after_<owner=event>        *)
(*            GT: before_transition / on_transition / after_transition     *)
(*            S : enter/exit of state owner (inline or on_enter_<id>)      *)
(*            GS: on_enter_state / on_exit_state                           *)
(***************************************************************************)
InSeq(x, seq) == \E i \in DOMAIN seq : seq[i] = x
SeqToSet(seq) == {seq[i] : i \in DOMAIN seq}
Min(S) == CHOOSE x \in S : \A y \in S : x <= y

StateIds(d)   == {d.states[i].id : i \in DOMAIN d.states}
IsState(d, s) == s \in StateIds(d)
StateRec(d, s) == d.states[CHOOSE i \in DOMAIN d.states : d.states[i].id = s]
OutIdx(d, s)  == {j \in DOMAIN d.trans : d.trans[j].src = s}
\* candidates for (state, event) strictly after position `after`, in declaration order
Cands(d, s, ev, after) == {j \in OutIdx(d, s) : j > after /\ InSeq(ev, d.trans[j].evs)}

\* unique events of the transitions leaving s, in order of first appearance
RECURSIVE UniqEvs(_, _, _)
UniqEvs(d, idxs, acc) ==
    IF idxs = {} THEN acc
    ELSE LET j == Min(idxs)
             RECURSIVE AddAll(_, _)
             AddAll(evs, a) == IF evs = <<>> THEN a
                               ELSE AddAll(Tail(evs), IF InSeq(Head(evs), a) THEN a ELSE Append(a, Head(evs)))
         IN UniqEvs(d, idxs \ {j}, AddAll(d.trans[j].evs, acc))
Allowed(d, s) == IF IsState(d, s) THEN UniqEvs(d, OutIdx(d, s), <<>>) ELSE <<>>

(***************************************************************************)
(* Which callbacks belong to a phase of an executing transition.           *)
(***************************************************************************)
CbApplies(d, cb, f, g, provs) ==
    /\ cb.group = g
    /\ cb.prov \in provs
    /\ IF f.init
       THEN g = "enter" /\ (cb.okind = "GS" \/ (cb.okind = "S" /\ cb.owner = f.tgt))
       ELSE CASE cb.okind = "T"  -> cb.tix = f.tix
              [] cb.okind = "E"  -> cb.owner = f.ev
              [] cb.okind = "GT" -> TRUE
              [] cb.okind = "S"  -> /\ ~f.internal
                                    /\ \/ (g = "exit"  /\ cb.owner = f.src)
                                       \/ (g = "enter" /\ cb.owner = f.tgt)
              [] cb.okind = "GS" -> ~f.internal
              [] OTHER -> FALSE
PendingFor(d, m, f, g) == {c \in DOMAIN d.cbs : CbApplies(d, d.cbs[c], f, g, m.provs)}

(***************************************************************************)
(* Machine record and frames                                               *)
(***************************************************************************)
BlankF == [k |-> "", has |-> FALSE, first |-> NoRes,
           ev |-> "", init |-> FALSE, qid |-> 0, from |-> "", cand |-> 0, tix |-> 0,
           src |-> "", tgt |-> "", internal |-> FALSE, phase |-> "", pending |-> {},
           open |-> {}, res |-> <<>>, gfail |-> FALSE, caller |-> 0, wrote |-> FALSE]
LoopF == [BlankF EXCEPT !.k = "loop"]
TrigF(td, from, caller) ==
    [BlankF EXCEPT !.k = "trig", !.ev = td.ev, !.init = td.init, !.qid = td.id,
                   !.from = from, !.phase = "select", !.caller = caller]

\* opt = [rtc, allow, start, budget];  async is decided at construction from the providers
\* a naming-convention callback for an event that no transition carries is never registered
Registered(d, cb) == cb.okind = "E" => \E j \in DOMAIN d.trans : InSeq(cb.owner, d.trans[j].evs)
IsAsync(d, provs) == \E c \in DOMAIN d.cbs :
                        d.cbs[c].coro /\ d.cbs[c].prov \in provs /\ Registered(d, d.cbs[c])

NoGV == [none |-> TRUE]
NewM(d, opt, stored, provs) ==
    [alive |-> TRUE, cur |-> stored,
     queue |-> IF stored = "" THEN <<InitTD>> ELSE <<>>,
     locked |-> FALSE, stack |-> <<>>, raising |-> FALSE, exc |-> NoExc, out |-> NoOut,
     qid |-> 1, gv |-> NoGV, opt |-> opt, provs |-> provs, async |-> IsAsync(d, provs),
     budget |-> 0, ninv |-> 0, ctor |-> TRUE, tag |-> ""]

Top(m)       == m.stack[Len(m.stack)]
SetTop(m, f) == [m EXCEPT !.stack = [m.stack EXCEPT ![Len(m.stack)] = f]]
Pop(m)       == [m EXCEPT !.stack = SubSeq(m.stack, 1, Len(m.stack) - 1)]
Push(m, f)   == [m EXCEPT !.stack = Append(m.stack, f)]
TopIs(m, k)  == m.stack # <<>> /\ Top(m).k = k
Idle(m)      == m.alive /\ m.stack = <<>> /\ m.out.k = "none"
NumTrig(m)   == Cardinality({i \in DOMAIN m.stack : m.stack[i].k = "trig"})
Raise(m, e)  == IF m.raising THEN m ELSE [m EXCEPT !.raising = TRUE, !.exc = e]

\* open callbacks: [c, wait, got, sent, xto].  wait: "no" running | "pending" a nested trigger of its own machine runs |
\* "ready" its nested send has returned | "xpending" it is inside a send to ANOTHER machine (slot xto) |
\* "xready" that send has returned
OpenOf(f, c)   == CHOOSE o \in f.open : o.c = c
IsOpen(f, c)   == \E o \in f.open : o.c = c
\* a callback may take a step only while every other started callback of the group is a
\* suspended coroutine (plain functions run atomically inside their gather task)
CanAct(d, f, c) == \A o \in f.open : o.c # c => d.cbs[o.c].coro

\* hand the result r of a finished trigger (frame f, already popped from m) to whoever waits for it
Deliver(m, f, r) ==
    IF m.stack = <<>> THEN [m EXCEPT !.out = RetOut(r)]
    ELSE LET p == Top(m) IN
         IF p.k = "loop"
         THEN SetTop(m, IF p.has \/ r = Sentinel THEN p ELSE [p EXCEPT !.has = TRUE, !.first = r])
         ELSE SetTop(m, [p EXCEPT !.open =
                 {IF o.c = f.caller THEN [o EXCEPT !.wait = "ready", !.got = r] ELSE o : o \in p.open}])

(***************************************************************************)
(* Entering the engine from outside                                        *)
(***************************************************************************)
\* Event.__call__ : put, then processing_loop (RTC: try-acquire; non-RTC: popleft and trigger)
EnExtCall(d, m) == Idle(m)
DoExtCall(d, m, ev, gv) ==
    LET td == [ev |-> ev, init |-> FALSE, id |-> m.qid]
        m1 == [m EXCEPT !.qid = @ + 1, !.gv = gv, !.budget = m.opt.budget]
    IN IF m.opt.rtc
       THEN [m1 EXCEPT !.queue = Append(@, td), !.locked = TRUE, !.stack = <<LoopF>>]
       ELSE [m1 EXCEPT !.stack = <<TrigF(td, m.cur, 0)>>]

\* activate_initial_state(): the processing loop without a put.  Non-RTC with nothing queued is
\* a no-op (the pinned tree raised IndexError here: finding F3, repaired by a fix: commit).
EnActivate(d, m) == Idle(m)
DoActivate(d, m, gv) ==
    LET m1 == [m EXCEPT !.gv = gv, !.budget = m.opt.budget] IN
    IF m.opt.rtc THEN [m1 EXCEPT !.locked = TRUE, !.stack = <<LoopF>>]
    ELSE IF m.queue = <<>> THEN [m1 EXCEPT !.out = RetOut(NoRes)]
    ELSE [m1 EXCEPT !.queue = Tail(@), !.stack = <<TrigF(Head(m.queue), m.cur, 0)>>]

\* StateMachine(...): resolve providers, choose the engine, start().  The sync engine drains at
\* once (= Activate); the async engine leaves `__initial__` queued until the first loop entry
\* and refuses rtc=False.
DoNew(d, opt, stored, provs, gv) ==
    LET m0 == NewM(d, opt, stored, provs) IN
    IF m0.async
    THEN IF ~opt.rtc THEN [m0 EXCEPT !.alive = FALSE, !.out = ExcOut(InvDef)]
         ELSE [m0 EXCEPT !.out = RetOut(NoRes)]
    ELSE DoActivate(d, m0, gv)

\* the outermost caller gets its result / exception back
EnReturn(m) == m.stack = <<>> /\ m.out.k # "none"
\* a constructor that raised leaves no machine behind
DoReturn(m) == [m EXCEPT !.out = NoOut, !.ctor = FALSE,
                         !.alive = IF m.ctor /\ m.out.k = "exc" THEN FALSE ELSE @]

(***************************************************************************)
(* The processing loop (RTC)                                               *)
(***************************************************************************)
EnLoopPop(d, m) == TopIs(m, "loop") /\ m.queue # <<>> /\ ~m.raising
DoLoopPop(d, m) == Push([m EXCEPT !.queue = Tail(@)], TrigF(Head(m.queue), m.cur, 0))

EnLoopExit(d, m) == TopIs(m, "loop") /\ m.queue = <<>> /\ ~m.raising
DoLoopExit(d, m) ==
    LET p == Top(m) IN
    [m EXCEPT !.stack = <<>>, !.locked = FALSE, !.out = RetOut(IF p.has THEN p.first ELSE NoRes)]

(***************************************************************************)
(* One trigger                                                             *)
(***************************************************************************)
\* _trigger: the `__initial__` pseudo-transition, or the candidate loop over
\* current_state.transitions in declaration order; for/else -> TransitionNotAllowed / tolerated
EnSelect(d, m) == TopIs(m, "trig") /\ Top(m).phase = "select" /\ ~m.raising
DoSelect(d, m) ==
    LET f == Top(m) IN
    IF f.init
    THEN LET tv == IF m.opt.start = "" THEN d.initial ELSE m.opt.start IN
         IF ~IsState(d, tv) THEN Raise(m, ISV(tv))
         ELSE SetTop(m, [f EXCEPT !.src = "", !.tgt = tv, !.phase = "assign"])
    ELSE IF ~IsState(d, f.from) THEN Raise(m, ISV(f.from))
    ELSE LET cs == Cands(d, f.from, f.ev, f.cand) IN
         IF cs = {}
         THEN IF m.opt.allow THEN Deliver(Pop(m), f, NoRes) ELSE Raise(m, TNA(f.ev, f.from))
         ELSE LET j  == Min(cs)
                  t  == d.trans[j]
                  f1 == [f EXCEPT !.tix = j, !.cand = j, !.src = t.src, !.tgt = t.tgt,
                                  !.internal = t.internal, !.phase = "validators",
                                  !.res = <<>>, !.gfail = FALSE]
              IN SetTop(m, [f1 EXCEPT !.pending = PendingFor(d, m, f1, "validators")])

\* a user callback starts.  sync: one at a time; async: the callbacks of one group are gathered,
\* so a further one may start while the started ones are suspended coroutines - also after a
\* sibling has raised (gather does not cancel)
EnBeginCb(d, m, c) ==
    /\ TopIs(m, "trig")
    /\ LET f == Top(m) IN
       /\ IsGroup(f.phase)
       /\ c \in f.pending
       /\ ~f.gfail        \* guards are evaluated one after the other; none is started once one has failed
       /\ IF m.async THEN \A o \in f.open : d.cbs[o.c].coro
                     ELSE f.open = {} /\ ~m.raising
DoBeginCb(d, m, c) ==
    LET f == Top(m) IN
    SetTop([m EXCEPT !.ninv = @ + 1],
           [f EXCEPT !.pending = @ \ {c},
                     !.open = @ \cup {[c |-> c, wait |-> "no", got |-> NoRes, sent |-> FALSE, xto |-> 0]},
                     !.res = IF f.phase \in {"before", "on"} THEN Append(@, [c |-> c, v |-> "?"]) ELSE @])

\* sm.send(ev) from inside callback c.  RTC: put, the try-acquire fails, the callback gets None
\* (it is queued behind everything already queued).  non-RTC: the nested event runs now,
\* depth-first, and its result is what the callback receives.
EnNestedSend(d, m, c) ==
    /\ TopIs(m, "trig") /\ (~m.raising \/ m.async)
    /\ LET f == Top(m) IN IsOpen(f, c) /\ OpenOf(f, c).wait = "no" /\ CanAct(d, f, c)
DoNestedSend(d, m, c, ev) ==
    LET f  == Top(m)
        o  == OpenOf(f, c)
        td == [ev |-> ev, init |-> FALSE, id |-> m.qid]
        m1 == [m EXCEPT !.qid = @ + 1, !.budget = IF @ > 0 THEN @ - 1 ELSE 0]
    IN IF m.opt.rtc
       THEN SetTop([m1 EXCEPT !.queue = Append(@, td)],
                   [f EXCEPT !.open = (@ \ {o}) \cup {[o EXCEPT !.wait = "ready", !.got = NoRes]}])
       ELSE Push(SetTop(m1, [f EXCEPT !.open = (@ \ {o}) \cup {[o EXCEPT !.wait = "pending"]}]),
                 TrigF(td, m.cur, c))

EnNestedRet(d, m, c) ==
    /\ TopIs(m, "trig") /\ (~m.raising \/ m.async)
    /\ LET f == Top(m) IN IsOpen(f, c) /\ OpenOf(f, c).wait = "ready" /\ CanAct(d, f, c)
NestedGot(m, c) == OpenOf(Top(m), c).got
DoNestedRet(d, m, c) ==
    LET f == Top(m)
        o == OpenOf(f, c)
    IN SetTop(m, [f EXCEPT !.open = (@ \ {o}) \cup {[o EXCEPT !.wait = "no", !.got = NoRes]}])

\* callback c writes the model field itself (setattr(model, state_field, v) in the middle of the transition): whatever
\* is written is what everybody reads from then on - until the engine's own assignment, which is unconditional
EnCbWrite(d, m, c) ==
    /\ TopIs(m, "trig") /\ (~m.raising \/ m.async)
    /\ LET f == Top(m) IN IsOpen(f, c) /\ OpenOf(f, c).wait = "no" /\ CanAct(d, f, c)
DoCbWrite(d, m, c, v) == SetTop([m EXCEPT !.cur = v], [Top(m) EXCEPT !.wrote = TRUE])

\* callback c returns or raises.  A guard whose truthiness differs from what its list expects
\* marks the candidate as rejected; before/on return values are the event's result.
EnEndCb(d, m, c) ==
    /\ TopIs(m, "trig")
    /\ LET f == Top(m) IN IsOpen(f, c) /\ OpenOf(f, c).wait = "no" /\ CanAct(d, f, c)
GuardHolds(d, m, c) == m.gv[d.cbs[c].gname] = d.cbs[c].expected
DoEndCb(d, m, c, raised) ==
    LET f  == Top(m)
        o  == OpenOf(f, c)
        cb == d.cbs[c]
        f1 == [f EXCEPT !.open = @ \ {o}]
        f2 == IF raised THEN f1
              ELSE IF cb.group = "cond" /\ ~GuardHolds(d, m, c) THEN [f1 EXCEPT !.gfail = TRUE]
              ELSE IF cb.group \in {"before", "on"}
                   THEN [f1 EXCEPT !.res = [i \in DOMAIN @ |->
                                              IF @[i].c = c THEN [c |-> c, v |-> cb.ret] ELSE @[i]]]
                   ELSE f1
        m1 == SetTop(m, f2)
    IN IF raised THEN Raise(m1, Boom(c)) ELSE m1

\* the candidate's guards did not all hold: none of its actions run, try the next candidate
EnGuardFail(d, m) ==
    /\ TopIs(m, "trig") /\ ~m.raising
    /\ LET f == Top(m) IN f.phase = "cond" /\ f.gfail /\ f.open = {}
DoGuardFail(d, m) ==
    SetTop(m, [Top(m) EXCEPT !.phase = "select", !.pending = {}, !.gfail = FALSE, !.res = <<>>])

\* every callback of the group has been run and awaited: next group
EnAdvance(d, m) ==
    /\ TopIs(m, "trig") /\ ~m.raising
    /\ LET f == Top(m) IN IsGroup(f.phase) /\ f.pending = {} /\ f.open = {} /\ ~f.gfail
DoAdvance(d, m) ==
    LET f  == Top(m)
        np == NextPhase(f.phase)
        f1 == [f EXCEPT !.phase = np]
    IN SetTop(m, [f1 EXCEPT !.pending = IF IsGroup(np) THEN PendingFor(d, m, f1, np) ELSE {}])

\* the single assignment of the model field: after `on`, before `enter`
EnAssign(d, m) == TopIs(m, "trig") /\ Top(m).phase = "assign" /\ ~m.raising
DoAssign(d, m) ==
    LET f  == Top(m)
        f1 == [f EXCEPT !.phase = "enter", !.wrote = FALSE]
    IN SetTop([m EXCEPT !.cur = f.tgt], [f1 EXCEPT !.pending = PendingFor(d, m, f1, "enter")])

EnTrigDone(d, m) == TopIs(m, "trig") /\ Top(m).phase = "done" /\ ~m.raising
TrigResult(f) == IF f.init THEN Sentinel ELSE MkRes([i \in DOMAIN f.res |-> f.res[i].v])
DoTrigDone(d, m) == LET f == Top(m) IN Deliver(Pop(m), f, TrigResult(f))

\* an exception (callback, TransitionNotAllowed of a queued event, invalid state value) reaches
\* the outermost caller: every frame is abandoned; RTC clears the queue and releases the lock
EnUnwind(d, m) ==
    /\ m.raising /\ m.stack # <<>>
    /\ TopIs(m, "trig") => \A o \in Top(m).open : o.wait # "no"
DoUnwind(d, m) ==
    LET m1 == [m EXCEPT !.stack = <<>>, !.raising = FALSE, !.exc = NoExc, !.out = ExcOut(m.exc)] IN
    IF m.opt.rtc THEN [m1 EXCEPT !.queue = <<>>, !.locked = FALSE] ELSE m1

(***************************************************************************)
(* The model field from outside the engine                                 *)
(***************************************************************************)
\* sm.current_state_value = v / sm.current_state = s : membership check, then setattr
DoWriteSetter(d, m, v) ==
    IF IsState(d, v) THEN [m EXCEPT !.cur = v, !.out = RetOut(NoRes)]
    ELSE [m EXCEPT !.out = ExcOut(ISV(v))]
\* setattr(model, state_field, v) behind the machine's back: whatever is written is the truth
DoWriteModel(d, m, v) == [m EXCEPT !.cur = v, !.out = RetOut(NoRes)]
\* sm.<custom attribute> = v : user data kept on the machine object (an opaque tag here); nothing in the engine reads it,
\* a copy carries it along
DoSetTag(d, m, v) == [m EXCEPT !.tag = v, !.out = RetOut(NoRes)]
\* sm.add_listener(p) : set semantics
DoAddListener(d, m, p) == [m EXCEPT !.provs = @ \cup {p}, !.out = RetOut(NoRes)]

(***************************************************************************)
(* Projection: what the public API shows                                   *)
(***************************************************************************)
ProjState(d, m)   == IF IsState(d, m.cur) THEN m.cur ELSE IF m.cur = "" THEN "none" ELSE "invalid"
ProjAllowed(d, m) == Allowed(d, m.cur)
ProjActive(d, m)  == {s \in StateIds(d) : s = m.cur}

(***************************************************************************)
(* Property formulas over one machine record (state predicates) and over   *)
(* a step m -> n (action predicates).  System.tla quantifies them over the *)
(* instances; mc/*.cfg lists them one per INVARIANT / PROPERTY line.        *)
(***************************************************************************)
\* C03: in RTC mode the stack never holds more than the loop and one trigger, whatever the
\* length of the chain of nested sends; the lock is held exactly while the loop runs
RTCNoNesting(m) == m.opt.rtc => /\ Len(m.stack) <= 2
                                /\ NumTrig(m) <= 1
                                /\ m.stack # <<>> => m.stack[1].k = "loop"
                                /\ m.locked = (m.stack # <<>>)
\* C04: back at the caller the machine is quiescent: not locked, nothing queued (except the
\* pending activation of an async machine), no frames
Quiescent(m) == (m.alive /\ m.stack = <<>>) =>
                   /\ ~m.locked /\ ~m.raising
                   /\ \A i \in DOMAIN m.queue : m.queue[i].init
                   /\ (m.queue # <<>> => m.async)
\* C10: exactly one state is active whenever the field holds a mapped value
ExactlyOneActive(d, m) == IsState(d, m.cur) => Cardinality(ProjActive(d, m)) = 1
\* C05: sync machines never run two callbacks at once; open callbacks belong to the top frame's phase
OneAtATime(d, m) == (~m.async /\ TopIs(m, "trig")) =>
                       Cardinality({o \in Top(m).open : o.wait = "no"}) <= 1
\* C02 (view of state, RTC): while a callback of phase p runs, the current state is the source
\* for p <= on and the target for enter/after
ViewOK(d, m) == (m.opt.rtc /\ TopIs(m, "trig") /\ IsGroup(Top(m).phase) /\ ~Top(m).init /\ ~Top(m).wrote) =>
                   m.cur = IF SeesSource(Top(m).phase) THEN Top(m).src ELSE Top(m).tgt
\* C01/C02: callbacks of a phase are only pending/open in that phase's group, and belong to
\* the selected transition
PendingWellFormed(d, m) ==
    TopIs(m, "trig") =>
        LET f == Top(m) IN
        /\ \A c \in f.pending : d.cbs[c].group = f.phase
        /\ \A o \in f.open : d.cbs[o.c].group = f.phase
        /\ f.pending \cap {o.c : o \in f.open} = {}

\* ---- step predicates (m = before, n = after) ----
\* C01: the state only changes to the target of the first candidate, in declaration order,
\* that carries the event and whose guards all hold under the current valuation
GuardsOf(d, j, provs) == {c \in DOMAIN d.cbs : /\ d.cbs[c].okind = "T" /\ d.cbs[c].tix = j
                                                /\ d.cbs[c].group = "cond" /\ d.cbs[c].prov \in provs}
EnabledT(d, m, j) == \A c \in GuardsOf(d, j, m.provs) : GuardHolds(d, m, c)
FirstEnabled(d, m, s, ev) ==
    LET cs == {j \in Cands(d, s, ev, 0) : EnabledT(d, m, j)} IN IF cs = {} THEN 0 ELSE Min(cs)
StepFirstEnabledWins(d, m, n) ==
    (TopIs(m, "trig") /\ Top(m).phase = "assign" /\ ~Top(m).init /\ ~m.raising
       /\ TopIs(n, "trig") /\ Top(n).phase = "enter" /\ Len(n.stack) = Len(m.stack))
       => LET f == Top(m) IN /\ f.tix = FirstEnabled(d, m, f.from, f.ev)
                             /\ n.cur = d.trans[f.tix].tgt
\* C01/C04: the model field changes only in the Assign step (or by an outside write when idle)
StepCurChangesOnlyInAssign(m, n) ==
    (n.cur # m.cur /\ m.stack # <<>>) =>
        \/ (TopIs(m, "trig") /\ Top(m).phase = "assign")
        \/ (TopIs(m, "trig") /\ TopIs(n, "trig") /\ Len(n.stack) = Len(m.stack)     \* a callback wrote the field
               /\ Top(n).wrote /\ Top(n).phase = Top(m).phase /\ Top(m).open # {})
\* C02: group ranks of successive callback starts within one trigger never decrease and every
\* applicable callback has run before the phase is left (Advance needs pending = {} /\ open = {})
StepPhaseOrder(m, n) ==
    (TopIs(m, "trig") /\ TopIs(n, "trig") /\ Len(m.stack) = Len(n.stack) /\ Top(m).qid = Top(n).qid
       /\ IsGroup(Top(m).phase) /\ IsGroup(Top(n).phase) /\ Top(m).phase # Top(n).phase
       /\ Top(m).tix = Top(n).tix /\ Top(n).phase # "validators")
       => /\ GroupRank(Top(m).phase) < GroupRank(Top(n).phase)
          /\ Top(m).pending = {} /\ Top(m).open = {}
\* C03: queue is FIFO: an element is only removed at the head and only appended at the tail
StepQueueFIFO(m, n) ==
    \/ n.queue = m.queue
    \/ (m.queue # <<>> /\ n.queue = Tail(m.queue))
    \/ (n.queue # <<>> /\ SubSeq(n.queue, 1, Len(n.queue) - 1) = m.queue)
    \/ n.queue = <<>>
\* C04: after a failure the state is the source (failure in validators..on) or the target
\* (enter/after) of the transition in progress, never anything else
StepFailureState(d, m, n) ==
    (m.raising /\ m.stack # <<>> /\ n.stack = <<>>) => n.cur = m.cur
=============================================================================
