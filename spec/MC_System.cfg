SPECIFICATION MCSpec
CONSTANTS
  NI = 1
  MaxCalls = 2
  MaxFails = 1
  MaxActs = 1
  MaxX = 0
VIEW MCView
INVARIANT InvRTCNoNesting
INVARIANT InvQuiescent
INVARIANT InvExactlyOneActive
INVARIANT InvOneAtATime
INVARIANT InvViewOK
INVARIANT InvPendingWF
INVARIANT ResultOnlyBeforeOn
PROPERTY PropFirstEnabledWins
PROPERTY PropCurOnlyInAssign
PROPERTY PropPhaseOrder
PROPERTY PropQueueFIFO
PROPERTY PropFailureState
PROPERTY PropIsolation
PROPERTY NoCandidateOutcome
PROPERTY DroppedNeverRun
CHECK_DEADLOCK FALSE
