----------------------------- MODULE GuardExpr -----------------------------
(***************************************************************************)
(* Guards of python-statemachine (C08): cond / unless lists and boolean    *)
(* expressions over names, literals, not/!, and/^, or/v, parentheses and   *)
(* the six comparison operators, evaluated exactly as Python evaluates     *)
(* them: Python's precedence, left-to-right short-circuit, operand values  *)
(* (not booleans) as results of and/or, chained comparisons.               *)
(*                                                                         *)
(* Values are typed records (TLC cannot compare an integer with a string): *)
(*   [t |-> "none" | "bool" | "int" | "str", b, i, s]                      *)
(* ASTs are records dispatched on field k:                                 *)
(*   [k |-> "name", n] [k |-> "lit", v] [k |-> "not", e]                   *)
(*   [k |-> "and"|"or", l, r]   (binary, left-assoc chains nest to the left)*)
(*   [k |-> "cmp", first, ops, rest]   a op1 b op2 c ...                   *)
(* Tokens are strings: names, literal spellings, "not" "and" "or", "(" ")",*)
(* and the comparison operators.                                           *)
(***************************************************************************)
EXTENDS Naturals, Sequences, FiniteSets, TLC

VNone    == [t |-> "none", b |-> FALSE, i |-> 0, s |-> ""]
VBool(x) == [t |-> "bool", b |-> x, i |-> 0, s |-> ""]
VInt(x)  == [t |-> "int", b |-> FALSE, i |-> x, s |-> ""]
VStr(x)  == [t |-> "str", b |-> FALSE, i |-> 0, s |-> x]

Truthy(v) == CASE v.t = "none" -> FALSE
               [] v.t = "bool" -> v.b
               [] v.t = "int"  -> v.i # 0
               [] v.t = "str"  -> v.s # ""
IsNum(v) == v.t \in {"bool", "int"}
Num(v)   == IF v.t = "bool" THEN (IF v.b THEN 1 ELSE 0) ELSE v.i
\* Python equality on this universe: True == 1, False == 0; otherwise same type and payload
PyEq(a, b) == IF IsNum(a) /\ IsNum(b) THEN Num(a) = Num(b) ELSE a = b
\* ordering is only used on numeric operands (mixed / None orderings raise TypeError in Python and
\* are kept out of the generated cases)
CmpOp(op, a, b) == CASE op = "==" -> PyEq(a, b)
                     [] op = "!=" -> ~PyEq(a, b)
                     [] op = "<"  -> Num(a) < Num(b)
                     [] op = "<=" -> Num(a) <= Num(b)
                     [] op = ">"  -> Num(a) > Num(b)
                     [] op = ">=" -> Num(a) >= Num(b)

(***************************************************************************)
(* Evaluation: [v |-> value, reads |-> names in the order they are read]   *)
(***************************************************************************)
RECURSIVE Eval(_, _)
RECURSIVE EvalChain(_, _, _, _, _)
\* a op1 b op2 c: left value lv already evaluated; each further operand is evaluated once, and
\* evaluation stops at the first false link
EvalChain(lv, ops, rest, val, reads) ==
    IF ops = <<>> THEN [v |-> VBool(TRUE), reads |-> reads]
    ELSE LET r  == Eval(Head(rest), val)
             ok == CmpOp(Head(ops), lv, r.v)
             rd == reads \o r.reads
         IN IF ~ok THEN [v |-> VBool(FALSE), reads |-> rd]
            ELSE EvalChain(r.v, Tail(ops), Tail(rest), val, rd)
Eval(e, val) ==
    CASE e.k = "name" -> [v |-> val[e.n], reads |-> <<e.n>>]
      [] e.k = "lit"  -> [v |-> e.v, reads |-> <<>>]
      [] e.k = "not"  -> LET x == Eval(e.e, val) IN [v |-> VBool(~Truthy(x.v)), reads |-> x.reads]
      [] e.k = "and"  -> LET x == Eval(e.l, val) IN
                         IF ~Truthy(x.v) THEN x
                         ELSE LET y == Eval(e.r, val) IN [v |-> y.v, reads |-> x.reads \o y.reads]
      [] e.k = "or"   -> LET x == Eval(e.l, val) IN
                         IF Truthy(x.v) THEN x
                         ELSE LET y == Eval(e.r, val) IN [v |-> y.v, reads |-> x.reads \o y.reads]
      [] e.k = "cmp"  -> LET x == Eval(e.first, val) IN EvalChain(x.v, e.ops, e.rest, val, x.reads)

\* the order of first reads (how often a name is re-read inside a chain is left open)
RECURSIVE FirstReads(_, _)
FirstReads(seq, acc) ==
    IF seq = <<>> THEN acc
    ELSE FirstReads(Tail(seq), IF \E k \in DOMAIN acc : acc[k] = Head(seq) THEN acc ELSE Append(acc, Head(seq)))

\* a transition is enabled iff every cond entry is truthy and every unless entry is falsy
\* guards: Seq([e |-> expr, expected |-> BOOLEAN])
GuardHolds(g, val) == Truthy(Eval(g.e, val).v) = g.expected
Enabled(guards, val) == \A k \in DOMAIN guards : GuardHolds(guards[k], val)

(***************************************************************************)
(* Rendering with Python's precedence: or < and < not < comparison < atom  *)
(***************************************************************************)
Prec(e) == CASE e.k = "or" -> 1 [] e.k = "and" -> 2 [] e.k = "not" -> 3 [] e.k = "cmp" -> 4 [] OTHER -> 5
LitTok(v) == CASE v.t = "none" -> "None"
               [] v.t = "bool" -> (IF v.b THEN "True" ELSE "False")
               [] v.t = "int"  -> (CASE v.i = 0 -> "0" [] v.i = 1 -> "1" [] v.i = 2 -> "2" [] OTHER -> "3")
               [] v.t = "str"  -> (IF v.s = "" THEN "''" ELSE "'x'")
RECURSIVE Render(_, _)
\* full = TRUE parenthesises every compound operand
Paren(e, need, full) == IF need \/ (full /\ Prec(e) < 5) THEN <<"(">> \o Render(e, full) \o <<")">> ELSE Render(e, full)
RECURSIVE RenderChain(_, _, _)
RenderChain(ops, rest, full) ==
    IF ops = <<>> THEN <<>>
    ELSE <<Head(ops)>> \o Paren(Head(rest), Prec(Head(rest)) <= 4, full) \o RenderChain(Tail(ops), Tail(rest), full)
Render(e, full) ==
    CASE e.k = "name" -> <<e.n>>
      [] e.k = "lit"  -> <<LitTok(e.v)>>
      [] e.k = "not"  -> <<"not">> \o Paren(e.e, Prec(e.e) < 3, full)
      [] e.k = "and"  -> Paren(e.l, Prec(e.l) < 2, full) \o <<"and">> \o Paren(e.r, Prec(e.r) <= 2, full)
      [] e.k = "or"   -> Paren(e.l, Prec(e.l) < 1, full) \o <<"or">> \o Paren(e.r, Prec(e.r) <= 1, full)
      [] e.k = "cmp"  -> Paren(e.first, Prec(e.first) <= 4, full) \o RenderChain(e.ops, e.rest, full)

(***************************************************************************)
(* Parsing (precedence climbing).  A parse result is [e, rest, ok].        *)
(***************************************************************************)
IsCmpTok(t) == t \in {"==", "!=", "<", "<=", ">", ">="}
IsLitTok(t) == t \in {"None", "True", "False", "0", "1", "2", "3", "''", "'x'"}
TokLit(t) == CASE t = "None" -> VNone [] t = "True" -> VBool(TRUE) [] t = "False" -> VBool(FALSE)
               [] t = "0" -> VInt(0) [] t = "1" -> VInt(1) [] t = "2" -> VInt(2) [] t = "3" -> VInt(3)
               [] t = "''" -> VStr("") [] t = "'x'" -> VStr("x")
Bad == [e |-> [k |-> "bad"], rest |-> <<>>, ok |-> FALSE]

RECURSIVE POr(_)
RECURSIVE POrTail(_, _)
RECURSIVE PAnd(_)
RECURSIVE PAndTail(_, _)
RECURSIVE PNot(_)
RECURSIVE PCmp(_)
RECURSIVE PCmpTail(_, _, _, _)
RECURSIVE PAtom(_)

PAtom(ts) ==
    IF ts = <<>> THEN Bad
    ELSE LET t == Head(ts) IN
         IF t = "(" THEN LET r == POr(Tail(ts)) IN
                         IF r.ok /\ r.rest # <<>> /\ Head(r.rest) = ")" THEN [r EXCEPT !.rest = Tail(r.rest)] ELSE Bad
         ELSE IF IsLitTok(t) THEN [e |-> [k |-> "lit", v |-> TokLit(t)], rest |-> Tail(ts), ok |-> TRUE]
         ELSE IF t \in {")", "not", "and", "or"} \/ IsCmpTok(t) THEN Bad
         ELSE [e |-> [k |-> "name", n |-> t], rest |-> Tail(ts), ok |-> TRUE]
PCmpTail(first, ops, rest, ts) ==
    IF ts # <<>> /\ IsCmpTok(Head(ts))
    THEN LET r == PAtom(Tail(ts)) IN
         IF ~r.ok THEN Bad ELSE PCmpTail(first, Append(ops, Head(ts)), Append(rest, r.e), r.rest)
    ELSE IF ops = <<>> THEN [e |-> first, rest |-> ts, ok |-> TRUE]
    ELSE [e |-> [k |-> "cmp", first |-> first, ops |-> ops, rest |-> rest], rest |-> ts, ok |-> TRUE]
PCmp(ts) == LET r == PAtom(ts) IN IF ~r.ok THEN Bad ELSE PCmpTail(r.e, <<>>, <<>>, r.rest)
PNot(ts) == IF ts # <<>> /\ Head(ts) = "not"
            THEN LET r == PNot(Tail(ts)) IN IF ~r.ok THEN Bad ELSE [r EXCEPT !.e = [k |-> "not", e |-> r.e]]
            ELSE PCmp(ts)
PAndTail(l, ts) == IF ts # <<>> /\ Head(ts) = "and"
                   THEN LET r == PNot(Tail(ts)) IN
                        IF ~r.ok THEN Bad ELSE PAndTail([k |-> "and", l |-> l, r |-> r.e], r.rest)
                   ELSE [e |-> l, rest |-> ts, ok |-> TRUE]
PAnd(ts) == LET r == PNot(ts) IN IF ~r.ok THEN Bad ELSE PAndTail(r.e, r.rest)
POrTail(l, ts) == IF ts # <<>> /\ Head(ts) = "or"
                  THEN LET r == PAnd(Tail(ts)) IN
                       IF ~r.ok THEN Bad ELSE POrTail([k |-> "or", l |-> l, r |-> r.e], r.rest)
                  ELSE [e |-> l, rest |-> ts, ok |-> TRUE]
POr(ts) == LET r == PAnd(ts) IN IF ~r.ok THEN Bad ELSE POrTail(r.e, r.rest)

Parse(ts) == LET r == POr(ts) IN IF r.ok /\ r.rest = <<>> THEN r ELSE Bad
WellFormed(ts) == Parse(ts).ok

\* the correspondence between the written form and the structure
RoundTrip(e) == /\ Parse(Render(e, FALSE)).ok /\ Parse(Render(e, FALSE)).e = e
                /\ Parse(Render(e, TRUE)).ok  /\ Parse(Render(e, TRUE)).e = e
=============================================================================
