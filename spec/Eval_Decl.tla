------------------------------ MODULE Eval_Decl ------------------------------
(* TLC evaluates Decl.Normalize for every rendering and compares it with the abstract machine it was rendered from. *)
EXTENDS Decl, Json, IOUtils, TLCExt
VARIABLE x
Batch == JsonDeserialize(IOEnv.BATCH_FILE)
SetToSeq(S) == LET RECURSIVE F(_) F(T) == IF T = {} THEN <<>> ELSE LET e == CHOOSE y \in T : TRUE IN <<e>> \o F(T \ {e}) IN F(S)
Case(t) ==
    LET c == Batch[t]
        n == Normalize(c.body)
    IN [t |-> t, states |-> n.states, out |-> n.out, events |-> SetToSeq(n.events),
        same |-> (n.states = c.machine.states /\ n.out = c.machine.out
                  /\ n.events = {c.machine.events[i] : i \in DOMAIN c.machine.events})]
ASSUME \A t \in DOMAIN Batch : PrintT(<<"CASE", ToJson(Case(t))>>)
Init == x = 0
Next == UNCHANGED x
Spec == Init /\ [][Next]_x
=============================================================================
