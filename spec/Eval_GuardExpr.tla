--------------------------- MODULE Eval_GuardExpr ---------------------------
(* TLC as the evaluator of GuardExpr.tla over a batch of cases enumerated by the harness:          *)
(*   [e |-> AST, vals |-> Seq(valuation)]   -> tokens (minimal / full parentheses), RoundTrip,      *)
(*                                             per valuation: truthiness, value, first-read order   *)
(*   [toks |-> Seq(token)]                  -> WellFormed                                           *)
EXTENDS GuardExpr, Json, IOUtils, TLCExt
VARIABLE x
Batch == JsonDeserialize(IOEnv.BATCH_FILE)
Case(t) ==
    LET c == Batch[t] IN
    IF "e" \in DOMAIN c
    THEN [t |-> t, kind |-> "expr", toks |-> Render(c.e, FALSE), toksfull |-> Render(c.e, TRUE),
          roundtrip |-> RoundTrip(c.e),
          res |-> [k \in DOMAIN c.vals |->
                     LET r == Eval(c.e, c.vals[k]) IN
                     [truthy |-> Truthy(r.v), v |-> r.v, reads |-> FirstReads(r.reads, <<>>)]]]
    ELSE IF "guards" \in DOMAIN c
    THEN [t |-> t, kind |-> "guards",
          toks |-> [g \in DOMAIN c.guards |-> Render(c.guards[g].e, FALSE)],
          res |-> [k \in DOMAIN c.vals |->
                     [enabled |-> Enabled(c.guards, c.vals[k]),
                      each |-> [g \in DOMAIN c.guards |-> Truthy(Eval(c.guards[g].e, c.vals[k]).v)]]]]
    ELSE [t |-> t, kind |-> "tokens", wf |-> WellFormed(c.toks)]
ASSUME \A t \in DOMAIN Batch : PrintT(<<"CASE", ToJson(Case(t))>>)
Init == x = 0
Next == UNCHANGED x
Spec == Init /\ [][Next]_x
=============================================================================
