-------------------------------- MODULE Decl --------------------------------
(***************************************************************************)
(* C15: the declaration DSL as data, and what it denotes.                  *)
(*                                                                         *)
(* A class body is a sequence of statements:                               *)
(*  [op |-> "state", id, initial, final]                                   *)
(*  [op |-> "to",   h, src, tgts, evs, internal, guards]  src.to(tgts.., event=evs, ..)  *)
(*  [op |-> "from", h, tgt, srcs, evs, internal, guards]  tgt.from_(srcs.., event=evs, ..) *)
(*  [op |-> "any",  h, tgt, evs, guards]                  tgt.from_.any(event=evs, ...)  *)
(*  [op |-> "or",   h, a, b]                              h = a | b                       *)
(*  [op |-> "event", name, h]       class attribute  name = <transition list h>          *)
(*                                  (plain assignment, Event(...), or a decorated method) *)
(* h names the transition list a statement produces.                       *)
(*                                                                         *)
(* Meaning (Normalize): the body is executed first - every to/from creates *)
(* its transitions at once, appended to the SOURCE state's list in call    *)
(* order, carrying the events given as parameter; then the metaclass walks *)
(* the attributes in order - an event attribute adds its name to every     *)
(* transition of its list (if not yet present), and a from_.any()          *)
(* placeholder in the list is expanded into one transition from every      *)
(* non-final state, appended to that state's list at that moment.          *)
(* Result: the states in order, per state the sequence of transitions      *)
(* [tgt, evs, internal, guards], and the set of events.                    *)
(***************************************************************************)
EXTENDS Naturals, Sequences, FiniteSets, TLC

InSeq(x, s) == \E i \in DOMAIN s : s[i] = x
RECURSIVE AddAll(_, _)
AddAll(acc, xs) == IF xs = <<>> THEN acc
                   ELSE AddAll(IF InSeq(Head(xs), acc) THEN acc ELSE Append(acc, Head(xs)), Tail(xs))

\* ---- phase 1: executing the body ---------------------------------------------------------
\* trs: Seq of [src, tgt, evs, internal, guards, any]   (any = TRUE: placeholder of from_.any())
\* hs : function handle -> Seq of indices into trs
RECURSIVE Exec(_, _, _)
Exec(body, trs, hs) ==
    IF body = <<>> THEN [trs |-> trs, hs |-> hs]
    ELSE LET st == Head(body) IN
         CASE st.op = "to" ->
                LET new == [k \in DOMAIN st.tgts |-> [src |-> st.src, tgt |-> st.tgts[k], evs |-> st.evs,
                                                       internal |-> st.internal, guards |-> st.guards, any |-> FALSE]]
                    idx == [k \in DOMAIN st.tgts |-> Len(trs) + k]
                IN Exec(Tail(body), trs \o new, hs @@ (st.h :> idx))
           [] st.op = "from" ->
                LET new == [k \in DOMAIN st.srcs |-> [src |-> st.srcs[k], tgt |-> st.tgt, evs |-> st.evs,
                                                       internal |-> st.internal, guards |-> st.guards, any |-> FALSE]]
                    idx == [k \in DOMAIN st.srcs |-> Len(trs) + k]
                IN Exec(Tail(body), trs \o new, hs @@ (st.h :> idx))
           [] st.op = "any" ->
                Exec(Tail(body), Append(trs, [src |-> "*", tgt |-> st.tgt, evs |-> st.evs, internal |-> FALSE,
                                              guards |-> st.guards, any |-> TRUE]),
                     hs @@ (st.h :> <<Len(trs) + 1>>))
           [] st.op = "or" -> Exec(Tail(body), trs, hs @@ (st.h :> (hs[st.a] \o hs[st.b])))
           [] OTHER -> Exec(Tail(body), trs, hs)

\* ---- phase 2: the metaclass walks the attributes -------------------------------------------
\* known: non-final/final states declared so far (in order); extra: transitions created by any() expansion
RECURSIVE Walk(_, _, _, _, _)
Walk(body, trs, hs, known, events) ==
    IF body = <<>> THEN [trs |-> trs, events |-> events]
    ELSE LET st == Head(body) IN
         CASE st.op = "state" -> Walk(Tail(body), trs, hs, Append(known, st), events)
           [] st.op = "event" ->
                LET idx == hs[st.h]
                    \* the event's name is added to every transition of the list
                    t1 == [k \in DOMAIN trs |-> IF InSeq(k, idx) THEN [trs[k] EXCEPT !.evs = AddAll(@, <<st.name>>)] ELSE trs[k]]
                    \* placeholders of from_.any() are expanded onto the non-final states known at this moment
                    anys == {k \in DOMAIN trs : InSeq(k, idx) /\ trs[k].any}
                    RECURSIVE Expand(_, _)
                    Expand(ks, acc) ==
                        IF ks = {} THEN acc
                        ELSE LET k == CHOOSE x \in ks : \A y \in ks : x <= y
                                 srcs == [j \in DOMAIN known |-> known[j]]
                                 RECURSIVE Copies(_, _)
                                 Copies(j, a) == IF j > Len(known) THEN a
                                                 ELSE Copies(j + 1, IF known[j].final THEN a
                                                                    ELSE Append(a, [src |-> known[j].id, tgt |-> t1[k].tgt,
                                                                                    evs |-> <<st.name>>, internal |-> FALSE,
                                                                                    guards |-> t1[k].guards, any |-> FALSE]))
                             IN Expand(ks \ {k}, Copies(1, acc))
                IN Walk(Tail(body), Expand(anys, t1), hs, known, AddAll(events, <<st.name>>))
           [] OTHER -> Walk(Tail(body), trs, hs, known, events)

StatesOf(body) == LET RECURSIVE F(_, _)
                      F(b, acc) == IF b = <<>> THEN acc
                                   ELSE F(Tail(b), IF Head(b).op = "state"
                                                   THEN Append(acc, [id |-> Head(b).id, initial |-> Head(b).initial, final |-> Head(b).final])
                                                   ELSE acc)
                  IN F(body, <<>>)

RECURSIVE ParamEvents(_, _)
ParamEvents(trs, acc) == IF trs = <<>> THEN acc ELSE ParamEvents(Tail(trs), AddAll(acc, Head(trs).evs))

\* per state: its transitions in list order (placeholders themselves belong to no state)
OutOf(trs, s) == LET RECURSIVE F(_, _)
                     F(k, acc) == IF k > Len(trs) THEN acc
                                  ELSE F(k + 1, IF trs[k].src = s /\ ~trs[k].any
                                                THEN Append(acc, [tgt |-> trs[k].tgt, evs |-> trs[k].evs,
                                                                  internal |-> trs[k].internal, guards |-> trs[k].guards])
                                                ELSE acc)
                 IN F(1, <<>>)

Normalize(body) ==
    LET e  == Exec(body, <<>>, <<>>)
        w  == Walk(body, e.trs, e.hs, <<>>, <<>>)
        ss == StatesOf(body)
    IN [states |-> ss,
        out    |-> [k \in DOMAIN ss |-> OutOf(w.trs, ss[k].id)],
        events |-> {x \in {ParamEvents(w.trs, w.events)[i] : i \in DOMAIN ParamEvents(w.trs, w.events)} : TRUE}]
=============================================================================
