---------------------------- MODULE Trace_System ----------------------------
(***************************************************************************)
(* Batched trace validation: every execution recorded from the real        *)
(* library (harness: lib/runner.py) must be a behaviour of System.tla.      *)
(* One TLC run checks a whole batch: `tid` picks the trace in Init, each   *)
(* logged line is consumed by THE SAME action operator that the exhaustive *)
(* models use (nothing is re-specified here), the engine's unlogged steps  *)
(* are taken silently, and the furthest line reached per trace is kept in  *)
(* a TLC register.  The property invariants are evaluated in every state   *)
(* of every validated execution.                                           *)
(***************************************************************************)
EXTENDS System, Json, IOUtils, TLCExt

VARIABLES tid,   \* which trace of the batch
          l,     \* next line to consume
          sil,   \* silent steps since the last consumed line / queue pop
          n      \* steps taken so far (only used to find the furthest state for the diagnosis)

tvars == <<classes, insts, tid, l, sil, n>>

Batch  == JsonDeserialize(IOEnv.BATCH_FILE)
NB     == Len(Batch)
SilentBound == 16

Lines   == Batch[tid].lines
HasLine(e) == l <= Len(Lines) /\ Lines[l].e = e
L == Lines[l]
Consume == l' = l + 1 /\ sil' = 0 /\ n' = n + 1 /\ UNCHANGED tid

TraceInit ==
    /\ tid \in 1..NB
    /\ l = 1
    /\ sil = 0
    /\ n = 0
    /\ SysInit(Batch[tid].classes)

ProjView(m) == IF m.cur = "" THEN "none" ELSE m.cur

TNew == /\ HasLine("new")
        /\ Instantiate(L.i, L.cls, L.opt, L.stored, SeqToSet(L.provs), L.gv)
        /\ Consume

TCall == /\ HasLine("call")
         /\ CASE L.api \in {"send", "send_from", "event", "events_item", "allowed_item", "bound", "mixin_bound"}
                                        -> ExtCall(L.i, L.ev, L.gv)
              [] L.api = "activate"     -> Activate(L.i, L.gv)
              [] L.api \in {"write_setter", "write_state"} -> WriteSetter(L.i, L.v)
              [] L.api = "write_model"  -> WriteModel(L.i, L.v)
              [] L.api = "set_attr"     -> SetTag(L.i, L.v)
              [] L.api = "decorate_bound" -> Refused(L.i)
              [] L.api = "add_listener" -> AddListeners(L.i, SeqToSet(L.vs))
              [] L.api = "copy"         -> Copy(L.i, L.j)
              [] L.api = "copy_reset"   -> CopyReset(L.i, L.j, L.gv)
              [] OTHER -> FALSE
         /\ Consume

TBegin == /\ HasLine("B")
          /\ BeginCb(L.i, L.c)
          /\ LET m == M(L.i)
                 f == Top(m)
             IN \* (a guard given as property / attribute gets no injected arguments: L.inj = FALSE)
                /\ L.inj => /\ L.view = ProjState(D(L.i), m)
                            /\ L.src = f.src /\ L.tgt = f.tgt /\ L.evn = f.ev
                            /\ L.st = (IF SeesSource(f.phase) THEN f.src ELSE f.tgt)
                /\ D(L.i).cbs[L.c].evcb = ""
                /\ L.nest = NumTrig(m) - 1
                /\ L.pslot \in {0, L.i}      \* the provider object belongs to this instance
          /\ Consume

TEnd == /\ HasLine("E")
        /\ EndCb(L.i, L.c, L.raised)
        /\ Consume

TCbWrite == /\ HasLine("cbw")
            /\ CbWrite(L.i, L.c, L.v)
            /\ Consume

TCbCopy == /\ HasLine("cbcopy")
           /\ CopyBusy(L.i, L.c, L.j)
           /\ Consume

TNCall == /\ HasLine("ncall")
          /\ NestedSend(L.i, L.c, L.ev)
          /\ Consume

\* what a nested send returned to the callback; a plain function on an async machine gets an
\* un-awaitable coroutine by construction of the facade: only the queuing effect is constrained
TNRet == /\ HasLine("nret")
         /\ NestedRet(L.i, L.c)
         /\ (L.cmp => L.res = NestedGot(M(L.i), L.c))
         /\ Consume

\* a callback of instance L.i sends L.ev to instance L.to; what comes back is logged by the callback itself
TXCall == /\ HasLine("xcall")
          /\ IF Idle(M(L.to)) THEN XCall(L.i, L.c, L.to, L.ev, L.gv) ELSE XQueue(L.i, L.c, L.to, L.ev)
          /\ Consume

ProjOK(j, p) ==
    IF ~(Born(j) /\ insts'[j].m.alive) \/ p.state = "ctor" THEN TRUE
    ELSE LET d == classes[insts'[j].cls]
             m == insts'[j].m
         IN /\ p.cur = m.cur
            /\ p.state = ProjState(d, m)
            /\ p.allowed = ProjAllowed(d, m)
            /\ SeqToSet(p.active) = ProjActive(d, m)
            /\ p.events = d.events
            /\ p.modelok
            /\ p.tag = m.tag

TRet == /\ HasLine("ret")
        /\ Return(L.i)
        /\ LET o == M(L.i).out IN
           /\ L.k = o.k
           /\ (o.k = "ret" /\ L.cmp) => L.res = o.res
           /\ (o.k = "exc") => L.exc = o.exc
        /\ \A j \in Slots : ProjOK(j, L.proj[j])
        /\ Consume

TXRet == /\ HasLine("xret")
         /\ LET o == XOut(L.i, L.c) IN
            /\ L.k = o.k
            /\ (o.k = "ret" /\ L.cmp) => L.res = o.res
            /\ (o.k = "exc") => L.exc = o.exc
         /\ XRet(L.i, L.c)
         /\ \A j \in Slots : ProjOK(j, L.proj[j])
         /\ Consume

\* C16: a class statement adds a class; it never changes one that exists (the class table is fixed
\* in the spec), and the structure read back from every class object is the declared one
TClass == /\ HasLine("class")
          /\ L.cls \in DOMAIN classes
          /\ UNCHANGED svars
          /\ Consume

TProbe == /\ HasLine("probe")
          /\ L.cls \in DOMAIN classes
          /\ LET d == classes[L.cls] IN
             /\ L.states = [k \in DOMAIN d.states |-> d.states[k].id]
             /\ L.events = d.events
             /\ Len(L.allowed) = Len(d.states)
             /\ \A k \in DOMAIN L.allowed :
                   /\ L.allowed[k].evs = Allowed(d, L.allowed[k].s)
                   /\ SeqToSet(L.allowed[k].tgts) = {d.trans[j].tgt : j \in OutIdx(d, L.allowed[k].s)}
          /\ UNCHANGED svars
          /\ Consume

\* an event of the machine used as an action (on="other_event"): no user code runs, so nothing is logged - the
\* callback begins, sends that event to its own machine (queued in RTC mode) and returns None
EvCbs(i) == {c \in DOMAIN D(i).cbs : D(i).cbs[c].evcb # ""}
TSilent == /\ sil < SilentBound
           /\ \E i \in Slots :
                \/ LoopPop(i) /\ sil' = 1
                \/ \E c \in (IF Born(i) /\ TopIs(M(i), "trig") THEN EvCbs(i) ELSE {}) :
                       /\ \/ BeginCb(i, c)
                          \/ (IsOpen(Top(M(i)), c) /\ OpenOf(Top(M(i)), c).wait = "no" /\ ~OpenOf(Top(M(i)), c).sent
                                /\ NestedSendEv(i, c, D(i).cbs[c].evcb))
                          \/ NestedRet(i, c)
                          \/ (IsOpen(Top(M(i)), c) /\ OpenOf(Top(M(i)), c).sent /\ EndCb(i, c, FALSE))
                       /\ sil' = sil + 1
                \/ (LoopExit(i) \/ Select(i) \/ GuardFail(i) \/ Advance(i) \/ Assign(i)
                      \/ TrigDone(i) \/ Unwind(i)) /\ sil' = sil + 1
           /\ n' = n + 1
           /\ UNCHANGED <<tid, l>>

TraceNext == TNew \/ TCall \/ TBegin \/ TEnd \/ TCbWrite \/ TCbCopy \/ TNCall \/ TNRet \/ TXCall \/ TXRet \/ TRet \/ TClass \/ TProbe \/ TSilent
TraceSpec == TraceInit /\ [][TraceNext]_tvars

(***************************************************************************)
(* Verdicts.  Register tid: furthest line reached (l).  Register NB + tid: *)
(* first failed property invariant on the way (0 = none).  A state where   *)
(* an invariant fails is not extended.                                     *)
(***************************************************************************)
\* what the specification was doing at the furthest point of a rejected trace (for the replay file)
SetToSeq(S) == LET RECURSIVE F(_) F(T) == IF T = {} THEN <<>> ELSE LET e == CHOOSE y \in T : TRUE IN <<e>> \o F(T \ {e}) IN F(S)
Busy == {i \in Slots : Born(i) /\ (M(i).stack # <<>> \/ M(i).out.k # "none")}
Summary ==
    LET i == IF Busy # {} THEN CHOOSE x \in Busy : TRUE ELSE IF l <= Len(Lines) /\ "i" \in DOMAIN Lines[l] THEN Lines[l].i ELSE 1
        m == IF i \in Slots THEN M(i) ELSE DeadM
        f == IF m.stack # <<>> THEN Top(m) ELSE BlankF
    IN [i |-> i, cur |-> m.cur, queued |-> [k \in DOMAIN m.queue |-> m.queue[k].ev], frames |-> Len(m.stack),
        raising |-> m.raising, exc |-> m.exc.kind, out |-> m.out.k, async |-> m.async,
        phase |-> IF f.k = "trig" THEN f.phase ELSE IF f.k = "loop" THEN "loop" ELSE "idle",
        ev |-> f.ev, from |-> f.from, tix |-> f.tix, src |-> f.src, tgt |-> f.tgt,
        pending |-> SetToSeq(f.pending), open |-> SetToSeq({o.c : o \in f.open}), gfail |-> f.gfail]
Progress ==
    /\ (IF TLCGet(tid) < l \/ (TLCGet(tid) = l /\ TLCGet(3 * NB + tid) <= n)
        THEN TLCSet(3 * NB + tid, n) /\ TLCSet(2 * NB + tid, ToJson(Summary)) ELSE TRUE)
    /\ (IF TLCGet(tid) < l THEN TLCSet(tid, l) ELSE TRUE)
    /\ (IF InvFailed # 0
        THEN (IF TLCGet(NB + tid) = 0 THEN TLCSet(NB + tid, InvFailed) ELSE TRUE) /\ FALSE
        ELSE TRUE)

RegInit == \A t \in 1..(4 * NB) : TLCSet(t, 0)
ASSUME RegInit

Verdicts ==
    /\ TLCGet("stats").diameter >= 0
    /\ \A t \in 1..NB :
         PrintT(<<IF TLCGet(t) = Len(Batch[t].lines) + 1 /\ TLCGet(NB + t) = 0 THEN "ACCEPT" ELSE "REJECT",
                  t, TLCGet(t), TLCGet(NB + t), TLCGet(2 * NB + t)>>)
=============================================================================
