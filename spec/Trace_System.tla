---------------------------- MODULE Trace_System ----------------------------
(***************************************************************************)
(* Batched trace validation: every execution recorded from the real        *)
(* library (harness: lib/runner.py) must be a behaviour of System.tla.      *)
(* One TLC run checks a whole batch: `tid` picks the trace in Init, each   *)
(* logged line is consumed by THE SAME action operator that the exhaustive *)
(* models use (nothing is re-specified here), the engine's unlogged steps  *)
(* are taken silently, and the furthest line reached per trace is kept in  *)
(* a TLC register.  The property invariants are evaluated in every state   *)
(* of every validated execution.                                           *)
(***************************************************************************)
EXTENDS System, Json, IOUtils, TLCExt

VARIABLES tid,   \* which trace of the batch
          l,     \* next line to consume
          sil    \* silent steps since the last consumed line / queue pop

tvars == <<classes, insts, tid, l, sil>>

Batch  == JsonDeserialize(IOEnv.BATCH_FILE)
NB     == Len(Batch)
SilentBound == 16

Lines   == Batch[tid].lines
HasLine(e) == l <= Len(Lines) /\ Lines[l].e = e
L == Lines[l]
Consume == l' = l + 1 /\ sil' = 0 /\ UNCHANGED tid

TraceInit ==
    /\ tid \in 1..NB
    /\ l = 1
    /\ sil = 0
    /\ SysInit(Batch[tid].classes)

ProjView(m) == IF m.cur = "" THEN "none" ELSE m.cur

TNew == /\ HasLine("new")
        /\ Instantiate(L.i, L.cls, L.opt, L.stored, SeqToSet(L.provs), L.gv)
        /\ Consume

TCall == /\ HasLine("call")
         /\ CASE L.api \in {"send", "event", "events_item", "allowed_item", "bound", "mixin_bound"}
                                        -> ExtCall(L.i, L.ev, L.gv)
              [] L.api = "activate"     -> Activate(L.i, L.gv)
              [] L.api = "write_setter" -> WriteSetter(L.i, L.v)
              [] L.api = "write_model"  -> WriteModel(L.i, L.v)
              [] L.api = "add_listener" -> AddListener(L.i, L.v)
              [] L.api = "copy"         -> Copy(L.i, L.j)
              [] OTHER -> FALSE
         /\ Consume

TBegin == /\ HasLine("B")
          /\ BeginCb(L.i, L.c)
          /\ LET m == M(L.i)
                 f == Top(m)
             IN /\ L.view = ProjView(m)
                /\ L.src = f.src /\ L.tgt = f.tgt /\ L.evn = f.ev
                /\ L.st = (IF SeesSource(f.phase) THEN f.src ELSE f.tgt)
                /\ L.nest = NumTrig(m) - 1
                /\ L.pslot \in {0, L.i}      \* the provider object belongs to this instance
          /\ Consume

TEnd == /\ HasLine("E")
        /\ EndCb(L.i, L.c, L.raised)
        /\ Consume

TNCall == /\ HasLine("ncall")
          /\ NestedSend(L.i, L.c, L.ev)
          /\ Consume

\* what a nested send returned to the callback; a plain function on an async machine gets an
\* un-awaitable coroutine by construction of the facade: only the queuing effect is constrained
TNRet == /\ HasLine("nret")
         /\ NestedRet(L.i, L.c)
         /\ (L.cmp => L.res = NestedGot(M(L.i), L.c))
         /\ Consume

ProjOK(j, p) ==
    IF ~(Born(j) /\ insts'[j].m.alive) THEN TRUE
    ELSE LET d == classes[insts'[j].cls]
             m == insts'[j].m
         IN /\ p.cur = m.cur
            /\ p.state = ProjState(d, m)
            /\ p.allowed = ProjAllowed(d, m)
            /\ SeqToSet(p.active) = ProjActive(d, m)
            /\ p.events = d.events
            /\ p.modelok

TRet == /\ HasLine("ret")
        /\ Return(L.i)
        /\ LET o == M(L.i).out IN
           /\ L.k = o.k
           /\ (o.k = "ret" /\ L.cmp) => L.res = o.res
           /\ (o.k = "exc") => L.exc = o.exc
        /\ \A j \in Slots : ProjOK(j, L.proj[j])
        /\ Consume

\* C16: a class statement adds a class; it never changes one that exists (the class table is fixed
\* in the spec), and the structure read back from every class object is the declared one
TClass == /\ HasLine("class")
          /\ L.cls \in DOMAIN classes
          /\ UNCHANGED svars
          /\ Consume

TProbe == /\ HasLine("probe")
          /\ L.cls \in DOMAIN classes
          /\ LET d == classes[L.cls] IN
             /\ L.states = [k \in DOMAIN d.states |-> d.states[k].id]
             /\ L.events = d.events
             /\ Len(L.allowed) = Len(d.states)
             /\ \A k \in DOMAIN L.allowed :
                   /\ L.allowed[k].evs = Allowed(d, L.allowed[k].s)
                   /\ SeqToSet(L.allowed[k].tgts) = {d.trans[j].tgt : j \in OutIdx(d, L.allowed[k].s)}
          /\ UNCHANGED svars
          /\ Consume

TSilent == /\ sil < SilentBound
           /\ \E i \in Slots :
                \/ LoopPop(i) /\ sil' = 1
                \/ (LoopExit(i) \/ Select(i) \/ GuardFail(i) \/ Advance(i) \/ Assign(i)
                      \/ TrigDone(i) \/ Unwind(i)) /\ sil' = sil + 1
           /\ UNCHANGED <<tid, l>>

TraceNext == TNew \/ TCall \/ TBegin \/ TEnd \/ TNCall \/ TNRet \/ TRet \/ TClass \/ TProbe \/ TSilent
TraceSpec == TraceInit /\ [][TraceNext]_tvars

(***************************************************************************)
(* Verdicts.  Register tid: furthest line reached (l).  Register NB + tid: *)
(* first failed property invariant on the way (0 = none).  A state where   *)
(* an invariant fails is not extended.                                     *)
(***************************************************************************)
Progress ==
    /\ (IF TLCGet(tid) < l THEN TLCSet(tid, l) ELSE TRUE)
    /\ (IF InvFailed # 0
        THEN (IF TLCGet(NB + tid) = 0 THEN TLCSet(NB + tid, InvFailed) ELSE TRUE) /\ FALSE
        ELSE TRUE)

RegInit == \A t \in 1..(2 * NB) : TLCSet(t, 0)
ASSUME RegInit

Verdicts ==
    /\ TLCGet("stats").diameter >= 0
    /\ \A t \in 1..NB :
         PrintT(<<IF TLCGet(t) = Len(Batch[t].lines) + 1 /\ TLCGet(NB + t) = 0 THEN "ACCEPT" ELSE "REJECT",
                  t, TLCGet(t), TLCGet(NB + t)>>)
=============================================================================
