------------------------------ MODULE MC_System ------------------------------
(***************************************************************************)
(* Exhaustive exploration of System.tla over a FAMILY of small class       *)
(* definitions.  Each family member carries its own environment alphabet:  *)
(* option records, guard valuations, external events (including unknown    *)
(* names), events that callbacks may send, provider sets.  The environment *)
(* chooses, at every step, which event to send with which valuation, which *)
(* pending callback starts (all in-group orders), whether a callback sends *)
(* a nested event (budget) or raises (failure budget).                      *)
(***************************************************************************)
EXTENDS System, Json, IOUtils

CONSTANTS MaxCalls,    \* external calls per behaviour
          MaxFails,    \* raising callbacks per behaviour
          MaxActs,     \* explicit re-activations / restarts / outside writes per behaviour
          MaxX         \* sends from a callback of one instance to another instance, per behaviour

VARIABLES di,          \* family member
          ncalls, nfails, nacts, nx,
          hist         \* observable history (only kept when RecordHist; hidden by the VIEW otherwise)

mvars == <<classes, insts, di, ncalls, nfails, nacts, nx, hist>>

Family == JsonDeserialize(IOEnv.DEFS_FILE)
RecordHist == "MC_HIST" \in DOMAIN IOEnv
F == Family[di]
Rec(x) == IF RecordHist THEN hist' = Append(hist, x) ELSE hist' = hist

MCInit == /\ di \in DOMAIN Family
          /\ SysInit(Family[di].classes)
          /\ ncalls = 0 /\ nfails = 0 /\ nacts = 0 /\ nx = 0
          /\ hist = <<>>

Keep == UNCHANGED <<di, ncalls, nfails, nacts, nx>>
\* every instance is of class 1 of the family member; slots are filled in order (symmetry)
Cbs(i) == IF Born(i) THEN DOMAIN D(i).cbs ELSE {}

MCNew == /\ \E i \in Slots :
               /\ ~Born(i) /\ (IF i = 1 THEN TRUE ELSE Born(i - 1))
               /\ \E o \in DOMAIN F.opts, g \in DOMAIN F.gvs, s \in DOMAIN F.stored :
                     /\ Instantiate(i, 1, F.opts[o], F.stored[s], SeqToSet(F.provs), F.gvs[g])
                     /\ Rec([e |-> "new", i |-> i, opt |-> F.opts[o], stored |-> F.stored[s], gv |-> F.gvs[g]])
         /\ Keep

MCCall == /\ ncalls < MaxCalls
          /\ \E i \in Slots, e \in DOMAIN F.evs, g \in DOMAIN F.gvs :
                /\ ExtCall(i, F.evs[e], F.gvs[g])
                /\ Rec([e |-> "call", i |-> i, ev |-> F.evs[e], gv |-> F.gvs[g]])
          /\ ncalls' = ncalls + 1
          /\ UNCHANGED <<di, nfails, nacts, nx>>

MCActivate == /\ nacts < MaxActs
              /\ \E i \in Slots, g \in DOMAIN F.gvs :
                    Activate(i, F.gvs[g]) /\ Rec([e |-> "activate", i |-> i, gv |-> F.gvs[g]])
              /\ nacts' = nacts + 1
              /\ UNCHANGED <<di, ncalls, nfails, nx>>

\* a new machine over the model of the old one: whatever the model stores is resumed
MCRestart == /\ nacts < MaxActs
             /\ \E i \in Slots, o \in DOMAIN F.opts, g \in DOMAIN F.gvs :
                   /\ Born(i) /\ Idle(M(i))
                   /\ Instantiate(i, 1, F.opts[o], M(i).cur, SeqToSet(F.provs), F.gvs[g])
                   /\ Rec([e |-> "restart", i |-> i, opt |-> F.opts[o], gv |-> F.gvs[g]])
             /\ nacts' = nacts + 1
             /\ UNCHANGED <<di, ncalls, nfails, nx>>

\* the model field written from outside: through the machine's setter or behind its back
MCWrite == /\ nacts < MaxActs
           /\ \E i \in Slots, v \in DOMAIN F.values :
                 /\ Born(i)
                 /\ \/ WriteSetter(i, F.values[v]) /\ Rec([e |-> "write_setter", i |-> i, v |-> F.values[v]])
                    \/ WriteModel(i, F.values[v])  /\ Rec([e |-> "write_model", i |-> i, v |-> F.values[v]])
           /\ nacts' = nacts + 1
           /\ UNCHANGED <<di, ncalls, nfails, nx>>

MCBegin == \E i \in Slots : \E c \in Cbs(i) : BeginCb(i, c) /\ Rec([e |-> "B", i |-> i, c |-> c]) /\ Keep
MCEnd   == \E i \in Slots : \E c \in Cbs(i) : EndCb(i, c, FALSE) /\ Rec([e |-> "E", i |-> i, c |-> c, raised |-> FALSE]) /\ Keep
MCFail  == /\ nfails < MaxFails
           /\ \E i \in Slots : \E c \in Cbs(i) : EndCb(i, c, TRUE) /\ Rec([e |-> "E", i |-> i, c |-> c, raised |-> TRUE])
           /\ nfails' = nfails + 1
           /\ UNCHANGED <<di, ncalls, nacts, nx>>
MCNested == /\ \E i \in Slots : \E c \in Cbs(i), e \in DOMAIN F.nsends :
                  /\ M(i).budget > 0
                  /\ NestedSend(i, c, F.nsends[e]) /\ Rec([e |-> "ncall", i |-> i, c |-> c, ev |-> F.nsends[e]])
            /\ Keep
MCNRet  == \E i \in Slots : \E c \in Cbs(i) : NestedRet(i, c) /\ hist' = hist /\ Keep
\* a callback of i sends an event to the other instance j: j runs it now (idle) or queues it (busy, RTC)
MCXCall == /\ nx < MaxX
           /\ \E i \in Slots, j \in Slots : \E c \in Cbs(i), e \in DOMAIN F.nsends :
                 /\ i # j /\ Born(j)
                 /\ IF Idle(M(j)) THEN XCall(i, c, j, F.nsends[e], M(i).gv) ELSE XQueue(i, c, j, F.nsends[e])
                 /\ Rec([e |-> "xcall", i |-> i, c |-> c, to |-> j, ev |-> F.nsends[e]])
           /\ nx' = nx + 1
           /\ UNCHANGED <<di, ncalls, nfails, nacts>>
MCXRet  == \E i \in Slots : \E c \in Cbs(i) : XRet(i, c) /\ hist' = hist /\ Keep
Quiet == hist' = hist /\ Keep
MCLoopPop   == \E i \in Slots : LoopPop(i)   /\ Quiet
MCLoopExit  == \E i \in Slots : LoopExit(i)  /\ Quiet
MCSelect    == \E i \in Slots : Select(i)    /\ Quiet
MCGuardFail == \E i \in Slots : GuardFail(i) /\ Quiet
MCAdvance   == \E i \in Slots : Advance(i)   /\ Quiet
MCAssign    == \E i \in Slots : Assign(i)    /\ Quiet
MCTrigDone  == \E i \in Slots : TrigDone(i)  /\ Quiet
MCUnwind    == \E i \in Slots : Unwind(i)    /\ Quiet
\* the OUTERMOST caller gets its answer (an instance inside a cross-instance send answers through XRet)
Waited(j) == \E i \in Slots : i # j /\ XWaits(insts, i, j)
MCReturn   == \E i \in Slots : /\ ~Waited(i)
                                /\ Return(i) /\ Rec([e |-> "ret", i |-> i, out |-> M(i).out, cur |-> M(i).cur]) /\ Keep

MCNext == \/ MCNew \/ MCCall \/ MCActivate \/ MCRestart \/ MCWrite \/ MCBegin \/ MCEnd \/ MCFail
          \/ MCNested \/ MCNRet \/ MCXCall \/ MCXRet \/ MCReturn
          \/ MCLoopPop \/ MCLoopExit \/ MCSelect \/ MCGuardFail \/ MCAdvance \/ MCAssign
          \/ MCTrigDone \/ MCUnwind
MCSpec == MCInit /\ [][MCNext]_mvars

MCView == <<classes, insts, di, ncalls, nfails, nacts, nx>>

\* spec -> code: one observable history per distinct quiescent end state of the bounded model
\* (hist is outside the VIEW), printed as JSON for lib/replay to run on the implementation
Done == /\ \A i \in Slots : Born(i) /\ M(i).stack = <<>> /\ M(i).out.k = "none"
        /\ ncalls = MaxCalls
PrintHist == (RecordHist /\ Done) => PrintT(<<"HIST", ToJson([di |-> di, hist |-> hist])>>)

(***************************************************************************)
(* Action properties (PROPERTY lines of the cfg)                           *)
(***************************************************************************)
PropFirstEnabledWins == [][ActFirstEnabledWins]_mvars
PropCurOnlyInAssign  == [][ActCurOnlyInAssign]_mvars
PropPhaseOrder       == [][ActPhaseOrder]_mvars
PropQueueFIFO        == [][ActQueueFIFO]_mvars
PropFailureState     == [][ActFailureState]_mvars
PropIsolation        == [][ActIsolation]_mvars

\* C01: an event that finds no enabled candidate leaves the state unchanged and ends in
\* TransitionNotAllowed(event, state) or, when tolerated, in None
NoCandidateOutcome ==
    [][\A i \in Slots :
         (Born(i) /\ SameInst(i) /\ EnSelect(D(i), M(i)) /\ ~Top(M(i)).init /\ IsState(D(i), Top(M(i)).from)
            /\ Cands(D(i), Top(M(i)).from, Top(M(i)).ev, Top(M(i)).cand) = {}
            /\ insts'[i].m # M(i) /\ Len(insts'[i].m.stack) <= Len(M(i).stack))
         => /\ insts'[i].m.cur = M(i).cur
            /\ IF M(i).opt.allow THEN ~insts'[i].m.raising
               ELSE insts'[i].m.raising /\ insts'[i].m.exc = TNA(Top(M(i)).ev, Top(M(i)).from)]_mvars

\* C04: whatever was queued when a failure unwinds is gone and never starts later: trigger ids
\* only ever start in increasing order and a cleared id never reappears (ids are unique)
DroppedNeverRun ==
    [][\A i \in Slots :
         (Born(i) /\ SameInst(i) /\ EnUnwind(D(i), M(i)) /\ insts'[i].m.stack = <<>> /\ M(i).opt.rtc)
         => insts'[i].m.queue = <<>> /\ ~insts'[i].m.locked]_mvars

\* C05/C11: an event is never handled before the machine has a current state: the pending
\* `__initial__` of an async machine is always processed first
ActivatedBeforeFirstEvent ==
    \A i \in Slots : (Born(i) /\ TopIs(M(i), "trig") /\ ~Top(M(i)).init) => Top(M(i)).from # ""

\* C11: the `__initial__` pseudo-transition only ever starts on a model that stores no state.
\* (An async machine activates at its first event: a state written from outside before that is
\* overridden by the pending activation - the one case where the model already stores something.)
InitOnlyFromNoState ==
    \A i \in Slots : Born(i) =>
        \A k \in DOMAIN M(i).stack :
            (M(i).stack[k].k = "trig" /\ M(i).stack[k].init /\ M(i).stack[k].phase \in {"select", "assign"})
                => (M(i).cur = "" \/ M(i).async)
\* C11: a machine created over a stored state has nothing to process
ResumeRunsNothing ==
    [][\A i \in Slots :
         (insts'[i].cls # 0 /\ insts'[i].m.ctor /\ ~insts[i].m.ctor /\ insts'[i].m.cur # "")
            => /\ insts'[i].m.queue = <<>>
               /\ \A k \in DOMAIN insts'[i].m.stack : insts'[i].m.stack[k].k = "loop"]_mvars

\* C14: only before/on results reach the caller
ResultOnlyBeforeOn ==
    \A i \in Slots : (Born(i) /\ TopIs(M(i), "trig")) =>
        \A k \in DOMAIN Top(M(i)).res : D(i).cbs[Top(M(i)).res[k].c].group \in {"before", "on"}
=============================================================================
