------------------------------ MODULE MC_System ------------------------------
(***************************************************************************)
(* Exhaustive exploration of System.tla over a FAMILY of small class       *)
(* definitions.  Each family member carries its own environment alphabet:  *)
(* option records, guard valuations, external events (including unknown    *)
(* names), events that callbacks may send, provider sets.  The environment *)
(* chooses, at every step, which event to send with which valuation, which *)
(* pending callback starts (all in-group orders), whether a callback sends *)
(* a nested event (budget) or raises (failure budget).                      *)
(***************************************************************************)
EXTENDS System, Json, IOUtils

CONSTANTS MaxCalls,    \* external calls per behaviour
          MaxFails,    \* raising callbacks per behaviour
          MaxActs      \* explicit re-activations per behaviour

VARIABLES di,          \* family member
          ncalls, nfails, nacts,
          hist         \* observable history (only kept when RecordHist; hidden by the VIEW otherwise)

mvars == <<classes, insts, di, ncalls, nfails, nacts, hist>>

Family == JsonDeserialize(IOEnv.DEFS_FILE)
RecordHist == "MC_HIST" \in DOMAIN IOEnv
F == Family[di]
Rec(x) == IF RecordHist THEN hist' = Append(hist, x) ELSE hist' = hist

MCInit == /\ di \in DOMAIN Family
          /\ SysInit(Family[di].classes)
          /\ ncalls = 0 /\ nfails = 0 /\ nacts = 0
          /\ hist = <<>>

Keep == UNCHANGED <<di, ncalls, nfails, nacts>>

MCNew == /\ ~Born(1)
         /\ \E o \in DOMAIN F.opts, g \in DOMAIN F.gvs, s \in DOMAIN F.stored :
               /\ Instantiate(1, 1, F.opts[o], F.stored[s], SeqToSet(F.provs), F.gvs[g])
               /\ Rec([e |-> "new", opt |-> F.opts[o], stored |-> F.stored[s], gv |-> F.gvs[g]])
         /\ Keep

MCCall == /\ ncalls < MaxCalls
          /\ \E e \in DOMAIN F.evs, g \in DOMAIN F.gvs :
                /\ ExtCall(1, F.evs[e], F.gvs[g])
                /\ Rec([e |-> "call", ev |-> F.evs[e], gv |-> F.gvs[g]])
          /\ ncalls' = ncalls + 1
          /\ UNCHANGED <<di, nfails, nacts>>

MCActivate == /\ nacts < MaxActs
              /\ \E g \in DOMAIN F.gvs : Activate(1, F.gvs[g]) /\ Rec([e |-> "activate", gv |-> F.gvs[g]])
              /\ nacts' = nacts + 1
              /\ UNCHANGED <<di, ncalls, nfails>>

\* a new machine over the model of the old one: whatever the model stores is resumed
MCRestart == /\ nacts < MaxActs /\ Born(1) /\ Idle(M(1))
             /\ \E o \in DOMAIN F.opts, g \in DOMAIN F.gvs :
                   /\ Instantiate(1, 1, F.opts[o], M(1).cur, SeqToSet(F.provs), F.gvs[g])
                   /\ Rec([e |-> "restart", opt |-> F.opts[o], gv |-> F.gvs[g]])
             /\ nacts' = nacts + 1
             /\ UNCHANGED <<di, ncalls, nfails>>

\* the model field written from outside: through the machine's setter or behind its back
MCWrite == /\ nacts < MaxActs /\ Born(1)
           /\ \E v \in DOMAIN F.values :
                 \/ WriteSetter(1, F.values[v]) /\ Rec([e |-> "write_setter", v |-> F.values[v]])
                 \/ WriteModel(1, F.values[v])  /\ Rec([e |-> "write_model", v |-> F.values[v]])
           /\ nacts' = nacts + 1
           /\ UNCHANGED <<di, ncalls, nfails>>

MCBegin == \E c \in DOMAIN classes[1].cbs : BeginCb(1, c) /\ Rec([e |-> "B", c |-> c]) /\ Keep
MCEnd   == \E c \in DOMAIN classes[1].cbs : EndCb(1, c, FALSE) /\ Rec([e |-> "E", c |-> c, raised |-> FALSE]) /\ Keep
MCFail  == /\ nfails < MaxFails
           /\ \E c \in DOMAIN classes[1].cbs : EndCb(1, c, TRUE) /\ Rec([e |-> "E", c |-> c, raised |-> TRUE])
           /\ nfails' = nfails + 1
           /\ UNCHANGED <<di, ncalls, nacts>>
MCNested == /\ Born(1) /\ M(1).budget > 0
            /\ \E c \in DOMAIN classes[1].cbs, e \in DOMAIN F.nsends :
                  NestedSend(1, c, F.nsends[e]) /\ Rec([e |-> "ncall", c |-> c, ev |-> F.nsends[e]])
            /\ Keep
MCNRet  == \E c \in DOMAIN classes[1].cbs : NestedRet(1, c) /\ hist' = hist /\ Keep
Quiet == hist' = hist /\ Keep
MCLoopPop   == LoopPop(1)   /\ Quiet
MCLoopExit  == LoopExit(1)  /\ Quiet
MCSelect    == Select(1)    /\ Quiet
MCGuardFail == GuardFail(1) /\ Quiet
MCAdvance   == Advance(1)   /\ Quiet
MCAssign    == Assign(1)    /\ Quiet
MCTrigDone  == TrigDone(1)  /\ Quiet
MCUnwind    == Unwind(1)    /\ Quiet
MCReturn   == Return(1) /\ Rec([e |-> "ret", out |-> M(1).out, cur |-> M(1).cur]) /\ Keep

MCNext == \/ MCNew \/ MCCall \/ MCActivate \/ MCRestart \/ MCWrite \/ MCBegin \/ MCEnd \/ MCFail
          \/ MCNested \/ MCNRet \/ MCReturn
          \/ MCLoopPop \/ MCLoopExit \/ MCSelect \/ MCGuardFail \/ MCAdvance \/ MCAssign
          \/ MCTrigDone \/ MCUnwind
MCSpec == MCInit /\ [][MCNext]_mvars

MCView == <<classes, insts, di, ncalls, nfails, nacts>>

\* spec -> code: one observable history per distinct quiescent end state of the bounded model
\* (hist is outside the VIEW), printed as JSON for lib/replay to run on the implementation
Done == Born(1) /\ ncalls = MaxCalls /\ M(1).stack = <<>> /\ M(1).out.k = "none"
PrintHist == (RecordHist /\ Done) => PrintT(<<"HIST", ToJson([di |-> di, hist |-> hist])>>)

(***************************************************************************)
(* Action properties (PROPERTY lines of the cfg)                           *)
(***************************************************************************)
PropFirstEnabledWins == [][ActFirstEnabledWins]_mvars
PropCurOnlyInAssign  == [][ActCurOnlyInAssign]_mvars
PropPhaseOrder       == [][ActPhaseOrder]_mvars
PropQueueFIFO        == [][ActQueueFIFO]_mvars
PropFailureState     == [][ActFailureState]_mvars
PropIsolation        == [][ActIsolation]_mvars

\* C01: an event that finds no enabled candidate leaves the state unchanged and ends in
\* TransitionNotAllowed(event, state) or, when tolerated, in None
NoCandidateOutcome ==
    [][\A i \in Slots :
         (Born(i) /\ SameInst(i) /\ EnSelect(D(i), M(i)) /\ ~Top(M(i)).init /\ IsState(D(i), Top(M(i)).from)
            /\ Cands(D(i), Top(M(i)).from, Top(M(i)).ev, Top(M(i)).cand) = {}
            /\ insts'[i].m # M(i) /\ Len(insts'[i].m.stack) <= Len(M(i).stack))
         => /\ insts'[i].m.cur = M(i).cur
            /\ IF M(i).opt.allow THEN ~insts'[i].m.raising
               ELSE insts'[i].m.raising /\ insts'[i].m.exc = TNA(Top(M(i)).ev, Top(M(i)).from)]_mvars

\* C04: whatever was queued when a failure unwinds is gone and never starts later: trigger ids
\* only ever start in increasing order and a cleared id never reappears (ids are unique)
DroppedNeverRun ==
    [][\A i \in Slots :
         (Born(i) /\ SameInst(i) /\ EnUnwind(D(i), M(i)) /\ insts'[i].m.stack = <<>> /\ M(i).opt.rtc)
         => insts'[i].m.queue = <<>> /\ ~insts'[i].m.locked]_mvars

\* C05/C11: an event is never handled before the machine has a current state: the pending
\* `__initial__` of an async machine is always processed first
ActivatedBeforeFirstEvent ==
    \A i \in Slots : (Born(i) /\ TopIs(M(i), "trig") /\ ~Top(M(i)).init) => Top(M(i)).from # ""

\* C11: the `__initial__` pseudo-transition only ever starts on a model that stores no state.
\* (An async machine activates at its first event: a state written from outside before that is
\* overridden by the pending activation - the one case where the model already stores something.)
InitOnlyFromNoState ==
    \A i \in Slots : Born(i) =>
        \A k \in DOMAIN M(i).stack :
            (M(i).stack[k].k = "trig" /\ M(i).stack[k].init /\ M(i).stack[k].phase \in {"select", "assign"})
                => (M(i).cur = "" \/ M(i).async)
\* C11: a machine created over a stored state has nothing to process
ResumeRunsNothing ==
    [][\A i \in Slots :
         (insts'[i].cls # 0 /\ insts'[i].m.ctor /\ ~insts[i].m.ctor /\ insts'[i].m.cur # "")
            => /\ insts'[i].m.queue = <<>>
               /\ \A k \in DOMAIN insts'[i].m.stack : insts'[i].m.stack[k].k = "loop"]_mvars

\* C14: only before/on results reach the caller
ResultOnlyBeforeOn ==
    \A i \in Slots : (Born(i) /\ TopIs(M(i), "trig")) =>
        \A k \in DOMAIN Top(M(i)).res : D(i).cbs[Top(M(i)).res[k].c].group \in {"before", "on"}
=============================================================================
