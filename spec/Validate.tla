------------------------------ MODULE Validate ------------------------------
(***************************************************************************)
(* C09: which class definitions are accepted.                              *)
(*  g = [states |-> Seq([id, initial, final]),                             *)
(*       edges  |-> Seq([src, tgt, internal])]   src = "*" : from_.any()   *)
(*  A class is accepted iff it declares at least one state and one event   *)
(*  (transition), exactly one initial state, no transition leaving a final *)
(*  state, internal transitions only as self-transitions, every state      *)
(*  reachable from the initial one.  Trap states (non-final, no outgoing   *)
(*  transition) and, when final states exist, non-final states without a   *)
(*  path to a final state are rejected under strict_states and reported    *)
(*  as warnings otherwise.                                                 *)
(***************************************************************************)
EXTENDS Naturals, Sequences, FiniteSets, TLC

Ids(g)      == {g.states[i].id : i \in DOMAIN g.states}
Flag(g, s, f) == \E i \in DOMAIN g.states : g.states[i].id = s /\ g.states[i][f]
Initials(g) == {s \in Ids(g) : Flag(g, s, "initial")}
Finals(g)   == {s \in Ids(g) : Flag(g, s, "final")}

\* from_.any() stands for one transition from every non-final state
ExpandedEdges(g) ==
    {<<g.edges[i].src, g.edges[i].tgt>> : i \in {j \in DOMAIN g.edges : g.edges[j].src # "*"}}
    \cup {<<s, g.edges[i].tgt>> : s \in Ids(g) \ Finals(g), i \in {j \in DOMAIN g.edges : g.edges[j].src = "*"}}
Succ(g, s) == {e[2] : e \in {x \in ExpandedEdges(g) : x[1] = s}}
HasOut(g, s) == Succ(g, s) # {}

\* states reachable from a set along directed transitions (reflexive)
RECURSIVE Reach(_, _)
Reach(g, seen) == LET nxt == seen \cup UNION {Succ(g, s) : s \in seen}
                  IN IF nxt = seen THEN seen ELSE Reach(g, nxt)

BadInternal(g) == \E i \in DOMAIN g.edges : g.edges[i].internal /\ g.edges[i].src # g.edges[i].tgt
Traps(g)   == {s \in Ids(g) \ Finals(g) : ~HasOut(g, s)}
NoPath(g)  == IF Finals(g) = {} THEN {}
              ELSE {s \in Ids(g) \ Finals(g) : Reach(g, {s}) \cap Finals(g) = {}}

\* reason of rejection ("" = accepted); the order is the order in which the library reports
Reject(g, strict) ==
    IF BadInternal(g) THEN "internal"
    ELSE IF g.edges = <<>> THEN "no_events"
    ELSE IF Cardinality(Initials(g)) # 1 THEN "initial"
    ELSE IF \E s \in Finals(g) : HasOut(g, s) THEN "final_with_transitions"
    ELSE IF Reach(g, Initials(g)) # Ids(g) THEN "unreachable"
    ELSE IF strict /\ Traps(g) # {} THEN "trap"
    ELSE IF strict /\ NoPath(g) # {} THEN "no_path_to_final"
    ELSE ""
Verdict(g, strict) ==
    LET r == Reject(g, strict) IN
    [accept |-> r = "", reason |-> r,
     warn_trap |-> r = "" /\ Traps(g) # {}, warn_nopath |-> r = "" /\ NoPath(g) # {},
     traps |-> Traps(g), nopath |-> NoPath(g)]
=============================================================================
