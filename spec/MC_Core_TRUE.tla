---- MODULE MC_Core_TRUE ----
(* Apalache wrapper: 3 senders, any number of events each; SecondLook = TRUE *)
EXTENDS DispatchCore
ConstInit == Senders = 1..3 /\ SecondLook = TRUE
====
