SPECIFICATION TraceSpec
CONSTANT NI = 3
CONSTRAINT Progress
POSTCONDITION Verdicts
CHECK_DEADLOCK FALSE
