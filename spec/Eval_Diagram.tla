---------------------------- MODULE Eval_Diagram ----------------------------
EXTENDS Diagram, Json, IOUtils, TLCExt
VARIABLE x
Batch == JsonDeserialize(IOEnv.BATCH_FILE)
Case(t) == [t |-> t, dia |-> Diagram(Batch[t].d, Batch[t].cur)]
ASSUME \A t \in DOMAIN Batch : PrintT(<<"CASE", ToJson(Case(t))>>)
Init == x = 0
Next == UNCHANGED x
Spec == Init /\ [][Next]_x
=============================================================================
