------------------------------- MODULE System -------------------------------
(***************************************************************************)
(* The library as a system: a table of class definitions and a table of    *)
(* machine instances.  Every action names the ONE instance it acts on and  *)
(* changes nothing else (the frame condition that C12/C16/C17 are about).  *)
(* The per-instance step semantics are the pure operators of Engine.tla.   *)
(***************************************************************************)
EXTENDS Engine

CONSTANT NI            \* number of instance slots

VARIABLES classes,     \* Seq of class definitions (index = class id); fixed after Init
          insts        \* [1..NI -> [cls: class id (0 = unborn), m: machine record]]

svars == <<classes, insts>>

DeadOpt == [rtc |-> TRUE, allow |-> FALSE, start |-> "", budget |-> 0]
DeadM == [alive |-> FALSE, cur |-> "", queue |-> <<>>, locked |-> FALSE, stack |-> <<>>,
          raising |-> FALSE, exc |-> NoExc, out |-> NoOut, qid |-> 1, gv |-> NoGV,
          opt |-> DeadOpt, provs |-> {}, async |-> FALSE, budget |-> 0, ninv |-> 0, ctor |-> FALSE, tag |-> ""]
Unborn == [cls |-> 0, m |-> DeadM]

Slots == 1..NI
M(i) == insts[i].m
D(i) == classes[insts[i].cls]
Born(i) == insts[i].cls # 0
Upd(i, m2) == /\ insts' = [insts EXCEPT ![i].m = m2]
              /\ UNCHANGED classes
\* at most one instance is inside the engine at a time (the library is sequential per thread
\* and generated callbacks only send to their own machine)
OthersQuiet(i) == \A j \in Slots : j # i => insts[j].m.stack = <<>> /\ insts[j].m.out.k = "none"

SysInit(cs) == /\ classes = cs
               /\ insts = [i \in Slots |-> Unborn]

(***************************************************************************)
(* Life cycle                                                              *)
(***************************************************************************)
\* sm = Class(model, ...): a fresh slot, or a new machine over the model of an idle one
\* (restart: whatever the model stores is resumed)
Instantiate(i, k, opt, stored, provs, gv) ==
    /\ k \in DOMAIN classes
    /\ OthersQuiet(i)
    /\ ~Born(i) \/ (Idle(M(i)) \/ ~M(i).alive)
    /\ insts' = [insts EXCEPT ![i] = [cls |-> k, m |-> DoNew(classes[k], opt, stored, provs, gv)]]
    /\ UNCHANGED classes

\* copy.deepcopy / pickle round trip of an idle machine: same class, same model content,
\* same options and providers, a still-pending activation is preserved
Copy(i, j) ==
    /\ Born(i) /\ Idle(M(i)) /\ ~Born(j) /\ OthersQuiet(i)
    /\ insts' = [insts EXCEPT ![j] = [cls |-> insts[i].cls, m |-> [M(i) EXCEPT !.out = RetOut(NoRes)]]]
    /\ UNCHANGED classes

\* a copy whose MODEL comes back without its state field (the model's own copy protocol says so): a machine of the same
\* class, options, providers and user data that starts like a new one
CopyReset(i, j, gv) ==
    /\ Born(i) /\ Idle(M(i)) /\ ~Born(j) /\ OthersQuiet(i)
    /\ insts' = [insts EXCEPT ![j] = [cls |-> insts[i].cls,
                                      m |-> [DoNew(D(i), M(i).opt, "", M(i).provs, gv) EXCEPT !.tag = M(i).tag]]]
    /\ UNCHANGED classes

\* the same, taken by a callback of i in the middle of a transition (an undo / persistence hook): the copy is a machine
\* at rest in whatever state the model shows at that moment - nothing of what i is in the middle of, nothing i has queued
CopyBusy(i, c, j) ==
    /\ Born(i) /\ ~Born(j) /\ i # j /\ EnCbWrite(D(i), M(i), c)
    /\ LET m == M(i) IN
       insts' = [insts EXCEPT ![j] = [cls |-> insts[i].cls,
                                      m |-> [m EXCEPT !.queue = IF m.cur = "" THEN <<InitTD>> ELSE <<>>, !.locked = FALSE,
                                                      !.stack = <<>>, !.raising = FALSE, !.exc = NoExc, !.out = NoOut,
                                                      !.ctor = FALSE]]]
    /\ UNCHANGED classes

ExtCall(i, ev, gv)  == Born(i) /\ OthersQuiet(i) /\ EnExtCall(D(i), M(i)) /\ Upd(i, DoExtCall(D(i), M(i), ev, gv))
Activate(i, gv)     == Born(i) /\ OthersQuiet(i) /\ EnActivate(D(i), M(i)) /\ Upd(i, DoActivate(D(i), M(i), gv))
WriteSetter(i, v)   == Born(i) /\ OthersQuiet(i) /\ Idle(M(i)) /\ Upd(i, DoWriteSetter(D(i), M(i), v))
WriteModel(i, v)    == Born(i) /\ OthersQuiet(i) /\ Idle(M(i)) /\ Upd(i, DoWriteModel(D(i), M(i), v))
AddListener(i, p)   == Born(i) /\ OthersQuiet(i) /\ Idle(M(i)) /\ Upd(i, DoAddListener(D(i), M(i), p))
SetTag(i, v)        == Born(i) /\ OthersQuiet(i) /\ Idle(M(i)) /\ Upd(i, DoSetTag(D(i), M(i), v))
\* a call that the library refuses without touching anything (a declaration attempted on an instance's event handle)
Refused(i)          == Born(i) /\ OthersQuiet(i) /\ Idle(M(i)) /\ Upd(i, [M(i) EXCEPT !.out = ExcOut(InvDef)])
\* sm.add_listener(a, b, ...): several listeners in one call
AddListeners(i, ps) == Born(i) /\ OthersQuiet(i) /\ Idle(M(i))
                       /\ Upd(i, [M(i) EXCEPT !.provs = @ \cup ps, !.out = RetOut(NoRes)])
Return(i)           == Born(i) /\ EnReturn(M(i)) /\ Upd(i, DoReturn(M(i)))

(***************************************************************************)
(* Engine steps of instance i                                              *)
(***************************************************************************)
LoopPop(i)          == Born(i) /\ EnLoopPop(D(i), M(i))  /\ Upd(i, DoLoopPop(D(i), M(i)))
LoopExit(i)         == Born(i) /\ EnLoopExit(D(i), M(i)) /\ Upd(i, DoLoopExit(D(i), M(i)))
Select(i)           == Born(i) /\ EnSelect(D(i), M(i))   /\ Upd(i, DoSelect(D(i), M(i)))
BeginCb(i, c)       == Born(i) /\ EnBeginCb(D(i), M(i), c) /\ Upd(i, DoBeginCb(D(i), M(i), c))
NestedSend(i, c, ev) == Born(i) /\ EnNestedSend(D(i), M(i), c) /\ Upd(i, DoNestedSend(D(i), M(i), c, ev))
\* the one send of an event used as an action (marks the open callback as having sent)
NestedSendEv(i, c, ev) ==
    /\ Born(i) /\ EnNestedSend(D(i), M(i), c)
    /\ LET m1 == DoNestedSend(D(i), M(i), c, ev)
           k  == IF M(i).opt.rtc THEN Len(m1.stack) ELSE Len(m1.stack) - 1
           f  == m1.stack[k]
       IN Upd(i, [m1 EXCEPT !.stack[k] = [f EXCEPT !.open = {IF o.c = c THEN [o EXCEPT !.sent = TRUE] ELSE o : o \in f.open}]])
NestedRet(i, c)     == Born(i) /\ EnNestedRet(D(i), M(i), c) /\ Upd(i, DoNestedRet(D(i), M(i), c))
EndCb(i, c, raised) == Born(i) /\ EnEndCb(D(i), M(i), c) /\ Upd(i, DoEndCb(D(i), M(i), c, raised))
CbWrite(i, c, v)    == Born(i) /\ EnCbWrite(D(i), M(i), c) /\ Upd(i, DoCbWrite(D(i), M(i), c, v))
GuardFail(i)        == Born(i) /\ EnGuardFail(D(i), M(i)) /\ Upd(i, DoGuardFail(D(i), M(i)))
Advance(i)          == Born(i) /\ EnAdvance(D(i), M(i))  /\ Upd(i, DoAdvance(D(i), M(i)))
Assign(i)           == Born(i) /\ EnAssign(D(i), M(i))   /\ Upd(i, DoAssign(D(i), M(i)))
TrigDone(i)         == Born(i) /\ EnTrigDone(D(i), M(i)) /\ Upd(i, DoTrigDone(D(i), M(i)))
Unwind(i)           == Born(i) /\ EnUnwind(D(i), M(i))   /\ Upd(i, DoUnwind(D(i), M(i)))

(***************************************************************************)
(* A callback of instance i sends an event to ANOTHER instance j (composite *)
(* machines, listeners that forward).  Python's call stack makes this a    *)
(* chain: i's callback waits while j runs the event to completion, unless  *)
(* j is itself further down the chain (it is busy): then, in RTC mode, the *)
(* event is only queued on j and the call returns None at once.            *)
(***************************************************************************)
XCaller(i, c) == /\ Born(i) /\ TopIs(M(i), "trig")
                 /\ IsOpen(Top(M(i)), c) /\ CanAct(D(i), Top(M(i)), c)
                 /\ (~M(i).raising \/ M(i).async)
SetOpen(m, c, w, j) ==
    LET f == Top(m)
        o == OpenOf(f, c)
    IN SetTop(m, [f EXCEPT !.open = (@ \ {o}) \cup {[o EXCEPT !.wait = w, !.xto = j]}])
\* j idle: the event starts on j now (same as an outside call on j, but i stays where it is)
XCall(i, c, j, ev, gv) ==
    /\ i # j /\ Born(j) /\ XCaller(i, c) /\ OpenOf(Top(M(i)), c).wait = "no"
    /\ Idle(M(j))
    /\ insts' = [insts EXCEPT ![i].m = SetOpen(M(i), c, "xpending", j),
                              ![j].m = DoExtCall(D(j), M(j), ev, gv)]
    /\ UNCHANGED classes
\* j busy (further down the chain) and RTC: put on j's queue, j's try-acquire fails, None comes back
XQueue(i, c, j, ev) ==
    /\ i # j /\ Born(j) /\ XCaller(i, c) /\ OpenOf(Top(M(i)), c).wait = "no"
    /\ M(j).alive /\ M(j).stack # <<>> /\ M(j).opt.rtc
    /\ LET td == [ev |-> ev, init |-> FALSE, id |-> M(j).qid] IN
       insts' = [insts EXCEPT ![i].m = SetOpen(M(i), c, "xready", j),
                              ![j].m = [M(j) EXCEPT !.qid = @ + 1, !.queue = Append(@, td)]]
    /\ UNCHANGED classes
\* j has finished: its outcome goes to i's callback (which catches exceptions), j is idle again
XOut(i, c) == LET o == OpenOf(Top(M(i)), c) IN
              IF o.wait = "xready" THEN RetOut(NoRes) ELSE M(o.xto).out
XRet(i, c) ==
    /\ XCaller(i, c)
    /\ LET o == OpenOf(Top(M(i)), c) IN
       \/ /\ o.wait = "xpending" /\ EnReturn(M(o.xto))
          /\ insts' = [insts EXCEPT ![i].m = SetOpen(M(i), c, "no", 0), ![o.xto].m = DoReturn(M(o.xto))]
       \/ /\ o.wait = "xready"
          /\ insts' = [insts EXCEPT ![i].m = SetOpen(M(i), c, "no", 0)]
    /\ UNCHANGED classes

\* the engine's own (unobservable) steps
Internal(i) == \/ LoopPop(i) \/ LoopExit(i) \/ Select(i) \/ GuardFail(i)
               \/ Advance(i) \/ Assign(i) \/ TrigDone(i) \/ Unwind(i)

(***************************************************************************)
(* Properties over the system (one INVARIANT / PROPERTY line each)         *)
(***************************************************************************)
Live == {i \in Slots : Born(i)}
InvRTCNoNesting     == \A i \in Live : RTCNoNesting(M(i))
InvQuiescent        == \A i \in Live : Quiescent(M(i))
InvExactlyOneActive == \A i \in Live : ExactlyOneActive(D(i), M(i))
InvOneAtATime       == \A i \in Live : OneAtATime(D(i), M(i))
InvViewOK           == \A i \in Live : ViewOK(D(i), M(i))
InvPendingWF        == \A i \in Live : PendingWellFormed(D(i), M(i))
InvAll == /\ InvRTCNoNesting /\ InvQuiescent /\ InvExactlyOneActive
          /\ InvOneAtATime /\ InvViewOK /\ InvPendingWF

\* which invariant fails first (0 = none); used by the trace spec to attribute a rejection
InvFailed == IF ~InvRTCNoNesting THEN 1 ELSE IF ~InvQuiescent THEN 2
             ELSE IF ~InvExactlyOneActive THEN 3 ELSE IF ~InvOneAtATime THEN 4
             ELSE IF ~InvViewOK THEN 5 ELSE IF ~InvPendingWF THEN 6 ELSE 0

SameInst(i) == Born(i) /\ insts'[i].cls = insts[i].cls
ActFirstEnabledWins == \A i \in Slots : SameInst(i) => StepFirstEnabledWins(D(i), M(i), insts'[i].m)
ActCurOnlyInAssign  == \A i \in Slots : SameInst(i) => StepCurChangesOnlyInAssign(M(i), insts'[i].m)
ActPhaseOrder       == \A i \in Slots : SameInst(i) => StepPhaseOrder(M(i), insts'[i].m)
ActQueueFIFO        == \A i \in Slots : SameInst(i) => StepQueueFIFO(M(i), insts'[i].m)
ActFailureState     == \A i \in Slots : SameInst(i) => StepFailureState(D(i), M(i), insts'[i].m)
\* C12/C16/C17: a step changes at most one instance and never the class table; the one exception is the
\* hand-over of a cross-instance send, which touches the waiting callback of the caller and the callee
XWaits(is, i, j) == /\ is[i].cls # 0 /\ is[i].m.stack # <<>>
                    /\ \E k \in DOMAIN is[i].m.stack : \E o \in is[i].m.stack[k].open : o.xto = j
ActIsolation == /\ classes' = classes
                /\ \A i, j \in Slots : (i # j /\ insts'[i] # insts[i] /\ insts'[j] # insts[j])
                       => (XWaits(insts, i, j) \/ XWaits(insts', i, j) \/ XWaits(insts, j, i) \/ XWaits(insts', j, i))
=============================================================================
