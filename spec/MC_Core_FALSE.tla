---- MODULE MC_Core_FALSE ----
(* Apalache wrapper: 3 senders, any number of events each; SecondLook = FALSE *)
EXTENDS DispatchCore
ConstInit == Senders = 1..3 /\ SecondLook = FALSE
====
