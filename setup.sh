#!/bin/sh
# Offline setup: parse every TLA+ module with SANY; nothing is downloaded.
set -e
cd /verif/spec
for f in *.tla; do
  tla-sany "$f" > /tmp/sany_$$.log 2>&1 || { cat /tmp/sany_$$.log; rm -f /tmp/sany_$$.log; exit 1; }
  if grep -q "Fatal errors\|Could not parse\|Semantic errors" /tmp/sany_$$.log; then cat /tmp/sany_$$.log; rm -f /tmp/sany_$$.log; exit 1; fi
done
rm -f /tmp/sany_$$.log
mkdir -p /verif/work /verif/evidence /verif/replays
echo "setup ok"
