import sys, json, random, time
sys.path.insert(0, "/verif/lib")
import gen, harness, tlc
rng = random.Random(int(sys.argv[1]) if len(sys.argv) > 1 else 1)
N = int(sys.argv[2]) if len(sys.argv) > 2 else 20
batch = []; scns = []
t0 = time.time()
for k in range(N):
    scn = gen.rand_engine_scenario(rng)
    res = harness.run_scenario(scn)
    batch.append(res); scns.append(scn)
print("ran", N, "scenarios in", round(time.time() - t0, 2), "s; lines", sum(len(b["lines"]) for b in batch))
vs, st = tlc.validate_batch(batch, shards=int(sys.argv[3]) if len(sys.argv) > 3 else 4)
print(st)
bad = [k for k, v in enumerate(vs) if not v["ok"]]
print("rejected", len(bad), "of", N)
for k in bad[:3]:
    v = vs[k]
    print("---- trace", k, v)
    ls = batch[k]["lines"]
    for idx, ln in enumerate(ls[max(0, v["matched"] - 6): v["matched"] + 2], start=max(0, v["matched"] - 6)):
        print(idx + 1, json.dumps(ln))
    json.dump({"scn": scns[k], "res": batch[k]}, open(f"/tmp/rej_{k}.json", "w"))
