"""Generators of abstract machine definitions and scenarios (inputs only; no oracle here)."""
import random

EVENTS = ["go", "go_back", "jump", "run", "go2", "ju"]   # prefix-related on purpose
GNAMES = ["g1", "g2", "g3", "g4"]
GROUPS_T = ["validators", "cond", "before", "on", "after"]


def rand_def(rng, *, nstates=None, ntrans=None, provs=("sm",), dense=0.5, coro=0.0, styles=True,
             guards=True, validators=True, finals=True, name="M", yields=0, guard_p=0.5,
             validator_p=0.15, events=None, evcb_p=0.0, alias_p=0.15):
    n = nstates or rng.randint(2, 5)
    ids = [f"s{k}" for k in range(n)]
    nfinal = rng.randint(0, max(0, n - 2)) if finals else 0
    final = set(ids[n - nfinal:]) if nfinal else set()
    states = [{"id": s, "initial": s == ids[0], "final": s in final} for s in ids]
    nonfinal = [s for s in ids if s not in final]
    nev = rng.randint(1, 4)
    evs = rng.sample(events or EVENTS, min(nev, len(events or EVENTS)))
    trans = []
    # reachability backbone: every state k>0 gets an incoming edge from an earlier non-final state
    for k in range(1, n):
        src = rng.choice([s for s in ids[:k] if s not in final] or [ids[0]])
        trans.append({"src": src, "tgt": ids[k]})
    # every non-final state gets an outgoing edge
    for s in nonfinal:
        if not any(t["src"] == s for t in trans):
            trans.append({"src": s, "tgt": rng.choice(ids)})
    extra = (ntrans if ntrans is not None else rng.randint(0, 8))
    for _ in range(extra):
        trans.append({"src": rng.choice(nonfinal), "tgt": rng.choice(ids)})
    rng.shuffle(trans)
    for t in trans:
        k = 1 if rng.random() < 0.75 else 2
        t["evs"] = rng.sample(evs, min(k, len(evs)))
        t["internal"] = (t["src"] == t["tgt"] and rng.random() < 0.5)
        t["decl"] = rng.choice(["to", "from"])
        t["evjoin"] = rng.random() < 0.7
    cbs = []

    def add(okind, group, owner="", tix=0, **kw):
        prov = rng.choice(list(provs))
        cb = {"okind": okind, "owner": owner, "tix": tix, "group": group, "prov": prov,
              "coro": rng.random() < coro, "yields": 0, "gname": "none", "expected": True,
              "ret": "none"}
        cb.update(kw)
        if cb["coro"] and yields:
            cb["yields"] = rng.randint(0, yields)
        if okind in ("T", "S"):
            if cb["prov"] == "sm" and styles:
                cb["style"] = rng.choice(["name", "name", "callable", "method", "decorator"]
                                         if okind == "T" else
                                         ["convention", "name", "callable", "method", "decorator"])
            else:
                cb["style"] = "name" if okind == "T" else rng.choice(["convention", "name"])
            if styles and group == "cond" and rng.random() < 0.25:
                cb["style"] = "property"       # a guard given as a property of its provider
                cb["coro"] = False
        if group in ("before", "on"):
            cb["ret"] = rng.choice(["none", f"r{len(cbs) + 1}", f"r{len(cbs) + 1}"])
        cbs.append(cb)
        return cb

    seen_conv = set()

    def add_conv(okind, group, owner=""):
        prov = rng.choice(list(provs))
        key = (okind, group, owner, prov)
        if key in seen_conv:
            return
        seen_conv.add(key)
        cb = add(okind, group, owner)
        cb["prov"] = prov
        cb["style"] = "convention"

    for j, t in enumerate(trans, start=1):
        if guards and rng.random() < guard_p:
            for g in rng.sample(GNAMES, rng.randint(1, 2)):
                add("T", "cond", tix=j, gname=g, expected=rng.random() < 0.6)
        if validators and rng.random() < validator_p:
            add("T", "validators", tix=j, gname=rng.choice(GNAMES + ["none"]))
        for g in ("before", "on", "after"):
            while rng.random() < dense * 0.5:
                add("T", g, tix=j)
    for ev in evs:
        for g in ("before", "on", "after"):
            if rng.random() < dense * 0.6:
                add_conv("E", g, ev)
    for g in ("before", "on", "after"):
        if rng.random() < dense * 0.5:
            add_conv("GT", g)
    for s in ids:
        for g in ("enter", "exit"):
            if rng.random() < dense * 0.5:
                cb = add("S", g, s)
                if cb["style"] == "convention":
                    key = ("S", g, s, cb["prov"])
                    if key in seen_conv:
                        cbs.pop()
                    else:
                        seen_conv.add(key)
    for g in ("enter", "exit"):
        if rng.random() < dense * 0.5:
            add_conv("GS", g)
    # events of the machine used as actions (on="<event>"): the event is sent to the machine itself.  Kept finite by a
    # rank on events: the event sent ranks strictly above every event of the transition it sits on, so every causal
    # chain of such sends ends, whatever the order in which queued events are processed.
    if evcb_p:
        for j, t in enumerate(trans, start=1):
            if rng.random() < evcb_p:
                top = max(evs.index(e) for e in t["evs"])
                options = [e for e in evs[top + 1:] if any(e in u["evs"] for u in trans)]   # declared events only
                if options:
                    cbs.append({"okind": "T", "owner": "", "tix": j, "group": rng.choice(["before", "on", "after"]),
                                "prov": "sm", "coro": False, "yields": 0, "gname": "none", "expected": True, "ret": "none",
                                "style": "event", "evcb": rng.choice(options)})
    # one callable / one name given to several groups of the same transition (before="audit", on="audit") or to the
    # enter and exit of the same state: it runs once in EACH of them
    nalias = 0
    for cb in list(cbs):
        if rng.random() >= alias_p or cb.get("coro") or cb.get("alias") or cb.get("evcb"):
            continue
        if cb["okind"] == "T" and cb["group"] in ("before", "on", "after") and cb.get("style") in ("name", "callable", "method"):
            others = [g for g in ("before", "on", "after") if g != cb["group"]]
        elif cb["okind"] == "S" and cb.get("style") in ("name", "callable", "method"):
            others = [g for g in ("enter", "exit") if g != cb["group"]]
        else:
            continue
        nalias += 1
        cb["alias"] = f"A{nalias}"
        cb["name"] = f"shared_fn_{nalias}"
        for g in rng.sample(others, rng.randint(1, len(others))):
            twin = dict(cb, group=g)
            twin["ret"] = rng.choice(["none", f"r{len(cbs) + 1}"]) if g in ("before", "on") else "none"
            cbs.append(twin)
    used = [e for e in evs if any(e in t["evs"] for t in trans)]
    return {"name": name, "states": states, "trans": trans, "initial": ids[0], "cbs": cbs,
            "evstyle": "param", "evlist": used, "anon_callables": rng.random() < 0.3}


VALUE_SCHEMES = ["id", "int0", "negint", "emptystr", "enum", "tuple", "bool", "mixed"]
_ENUMS = ["A", "B", "C", "D", "E", "F"]


def value_for(scheme, k, rng):
    """Tagged state value number k of a scheme (harness.decode_value turns it into the Python value); k = 0 is the
    falsy one where the scheme has one."""
    if scheme == "id":
        return None
    if scheme == "int0":
        return {"t": "int", "v": k}
    if scheme == "negint":
        return {"t": "int", "v": k - 2}
    if scheme == "emptystr":
        return {"t": "str", "v": "" if k == 0 else f"v{k}"}
    if scheme == "enum":
        return {"t": "enum", "v": _ENUMS[k]}
    if scheme == "tuple":
        return {"t": "tuple", "v": [] if k == 0 else [k, 0]}
    if scheme == "bool":
        return {"t": "bool", "v": False} if k == 0 else {"t": "bool", "v": True} if k == 1 else {"t": "int", "v": k}
    return rng.choice([{"t": "int", "v": k}, {"t": "str", "v": "" if k == 0 else f"m{k}"},
                       {"t": "tuple", "v": [k]}, {"t": "enum", "v": _ENUMS[k]}])


def assign_values(rng, d, scheme=None, same_name_p=0.0):
    """Give the states of d values of one scheme (the falsy value lands on a random state) and, with probability
    same_name_p, one shared display name."""
    scheme = scheme or rng.choice(VALUE_SCHEMES)
    order = list(range(len(d["states"])))
    rng.shuffle(order)
    for s, k in zip(d["states"], order):
        s["value"] = value_for(scheme, k, rng)
    if rng.random() < same_name_p:
        for s in d["states"]:
            if rng.random() < 0.7:
                s["name"] = "Same name"
    return scheme


def rename_states(d, prefix):
    """s0, s1, ... -> <prefix>0, <prefix>1, ... everywhere in definition d."""
    m = {s["id"]: prefix + s["id"][1:] for s in d["states"]}
    for s in d["states"]:
        s["id"] = m[s["id"]]
    for t in d["trans"]:
        t["src"], t["tgt"] = m[t["src"]], m[t["tgt"]]
    d["initial"] = m[d["initial"]]
    for cb in d["cbs"]:
        if cb["okind"] == "S":
            cb["owner"] = m[cb["owner"]]
    return d


def rand_gv(rng):
    return {g: rng.random() < 0.6 for g in GNAMES}


def rand_engine_scenario(rng, *, nsends=None, provs=None, rtc=None, allow=None, coro=0.0,
                         nested=0.4, fail=0.3, driver="sync", yields=0, nstates=None, dense=0.5,
                         unknown=("nope",), apis=None, values_p=0.3, twin_p=0.2, **defkw):
    provs = provs if provs is not None else rng.choice(
        [["sm"], ["sm"], ["sm", "model"], ["sm", "model", "l1"], ["sm", "l1", "l2"]])
    d = rand_def(rng, provs=tuple(provs), coro=coro, yields=yields, nstates=nstates, dense=dense, **defkw)
    has_coro = any(cb["coro"] for cb in d["cbs"])
    opt = {"rtc": (rng.random() < 0.7) if rtc is None else rtc,
           "allow": (rng.random() < 0.3) if allow is None else allow,
           "start": "", "budget": 0}
    if has_coro or any(cb.get("evcb") for cb in d["cbs"]):
        opt["rtc"] = True
    if any(cb.get("evcb") for cb in d["cbs"]):
        opt["allow"] = True      # the event sent by an event-action may find no transition in the state it is processed from
    budget = rng.randint(1, 4)
    opt["budget"] = budget
    evs = d["evlist"]
    script = {}
    if rng.random() < nested:
        for c in rng.sample(range(1, len(d["cbs"]) + 1), min(len(d["cbs"]), rng.randint(1, 3))):
            if d["cbs"][c - 1]["group"] in ("cond", "validators") and rng.random() < 0.7:
                continue
            script[str(c)] = [rng.choice(evs + ["nope"]) for _ in range(rng.randint(1, 2))]
            if rng.random() < 0.25:
                # ... after attaching, from inside the callback, a listener that has no callbacks at all
                script[str(c)] = [{"listen": "empty"}] + script[str(c)]
    n = nsends or rng.randint(1, 8)
    steps = [{"op": "new", "i": 1, "cls": 1, "opt": opt, "stored": "", "provs": provs,
              "gv": rand_gv(rng)}]
    apis = apis or ["send", "send", "event", "events_item", "allowed_item", "bound"]
    unk = list(unknown)
    if unknown and len(unknown) > 1:
        unk += [rng.choice(evs)[:-1] or "q", rng.choice(evs) + "x", rng.choice(evs) + "_"]
        unk = [u for u in unk if u not in evs]
    for _ in range(n):
        ev = rng.choice(evs + evs + unk)
        api = rng.choice(apis)
        if ev not in evs:
            api = "send"
        steps.append({"op": "call", "i": 1, "api": api, "ev": ev, "gv": rand_gv(rng)})
    fail_at = []
    if rng.random() < fail:
        fail_at = sorted(rng.sample(range(1, 40), rng.randint(1, 2)))
        if has_coro and yields:
            for cb in d["cbs"]:
                cb["yields"] = 0
    scn = {"classes": [d], "steps": steps, "script": script, "failAt": fail_at, "budget": budget,
           "ni": 3, "driver": driver}
    # listeners may be falsy objects (an empty journal), value-like or unhashable: an object is a listener whatever it is
    if any(p not in ("sm", "model") for p in provs):
        scn["listener_kind"] = rng.choice(["attr", "attr", "attr", "falsy_len", "falsy_bool", "equal", "unhashable"])
    # state values of every kind (0, "", (), False, enum members ...): what a state's value is changes nothing
    if rng.random() < values_p:
        scn["value_scheme"] = assign_values(rng, d)
    # a second machine of the same class, only there to lend its event OBJECTS: sm.send(other.events[k]) is a send to sm
    if rng.random() < twin_p and not fail_at:
        steps.insert(1, {"op": "new", "i": 2, "cls": 1, "opt": dict(opt), "stored": "", "provs": provs, "gv": rand_gv(rng)})
        for st in steps[2:]:
            if st["op"] == "call" and st.get("api") == "send" and st["ev"] in evs and rng.random() < 0.6:
                st["api"] = "send_from"
                st["j"] = 2
        scn["lender"] = True
    return scn


def nonrtc_nesting_scenario(rng, events=None, guards=True):
    """rtc=False: events sent from callbacks run at once, depth-first, INSIDE the transition in progress.  Many self and
    internal transitions, and the actions of every phase send events that leave the state: what the outer transition does
    after its nested event returns (the state assignment in particular) is what is looked at."""
    d = rand_def(rng, provs=("sm",), dense=rng.choice([0.5, 0.9]), coro=0.0, guards=guards, guard_p=0.3,
                 validators=False, events=events, nstates=rng.randint(2, 4), ntrans=rng.randint(2, 6))
    for t in d["trans"]:
        if rng.random() < 0.45:
            t["tgt"] = t["src"]
            t["internal"] = rng.random() < 0.4
        elif t["src"] != t["tgt"]:
            t["internal"] = False
    # reachability is unaffected by what follows only if the backbone survives: keep the definition valid
    reach, todo = {d["initial"]}, [d["initial"]]
    while todo:
        s0 = todo.pop()
        for t in d["trans"]:
            if t["src"] == s0 and t["tgt"] not in reach:
                reach.add(t["tgt"])
                todo.append(t["tgt"])
    ids = [x["id"] for x in d["states"]]
    for s0 in ids:
        if s0 not in reach:
            src = rng.choice(sorted(reach))
            if any(x["id"] == src and x["final"] for x in d["states"]):
                src = d["initial"]
            d["trans"].append({"src": src, "tgt": s0, "evs": [rng.choice(d["evlist"])], "internal": False,
                               "decl": "to", "evjoin": True})
            reach.add(s0)
    d["evlist"] = [e for e in (events or EVENTS) if any(e in t["evs"] for t in d["trans"])]
    # actions on the self / internal transitions (and a few others) send events
    script = {}
    selfs = {j for j, t in enumerate(d["trans"], start=1) if t["src"] == t["tgt"]}
    for j in selfs:
        for g in rng.sample(["before", "on", "after"], rng.randint(1, 2)):
            d["cbs"].append({"okind": "T", "owner": "", "tix": j, "group": g, "prov": "sm", "coro": False, "yields": 0,
                             "gname": "none", "expected": True, "ret": rng.choice(["none", f"r{len(d['cbs']) + 1}"]),
                             "style": rng.choice(["name", "callable", "method"])})
    for c, cb in enumerate(d["cbs"], start=1):
        if cb["group"] in ("cond", "validators"):
            continue
        if (cb["okind"] == "T" and cb["tix"] in selfs and rng.random() < 0.8) or rng.random() < 0.15:
            script[str(c)] = [rng.choice(d["evlist"]) for _ in range(rng.randint(1, 2))]
    budget = rng.randint(2, 4)
    opt = {"rtc": False, "allow": rng.random() < 0.4, "start": "", "budget": budget}
    steps = [{"op": "new", "i": 1, "cls": 1, "opt": opt, "stored": "", "provs": ["sm"], "gv": rand_gv(rng)}]
    for _ in range(rng.randint(3, 9)):
        steps.append({"op": "call", "i": 1, "api": rng.choice(["send", "event"]), "ev": rng.choice(d["evlist"]),
                      "gv": rand_gv(rng)})
    return {"classes": [d], "steps": steps, "script": script, "failAt": [], "budget": budget, "ni": 3, "driver": "sync",
            "kind": "nonrtc_nesting"}


# ------------------------------------------------------------------------------------------
# Small-scope families for the exhaustive models (mc/)
# ------------------------------------------------------------------------------------------
def all_gvs(names):
    out = []
    for mask in range(1 << len(names)):
        gv = {n: bool(mask >> k & 1) for k, n in enumerate(names)}
        gv["none"] = True
        out.append(gv)
    return out


def family_member(rng, *, nstates=3, dense=0.35, guards=True, validators=True, nested=True,
                  provs=("sm",), coro=0.0, max_cbs=6, opts=None, stored=("",), ntrans=None):
    import harness
    while True:
        d = rand_def(rng, nstates=rng.randint(2, nstates), ntrans=ntrans if ntrans is not None else rng.randint(0, 3),
                     provs=provs, dense=dense, coro=coro, guards=guards, validators=validators)
        for cb in d["cbs"]:
            if cb["gname"] not in ("none", "g1", "g2"):
                cb["gname"] = rng.choice(["g1", "g2"])
        if len(d["cbs"]) <= max_cbs:
            break
    harness.normalize_def(d)
    evs = d["evlist"] + ["nope"]
    has_coro = any(cb["coro"] for cb in d["cbs"])
    if opts is None:
        opts = [{"rtc": r, "allow": a, "start": "", "budget": 2 if nested else 0}
                for r in ([True] if has_coro else [True, False]) for a in (False, True)]
    return {"classes": [d], "opts": opts, "gvs": all_gvs(["g1", "g2"]), "evs": evs,
            "nsends": d["evlist"][:2] if nested else [], "stored": list(stored), "provs": list(provs),
            "values": [s["id"] for s in d["states"]] + ["!bad"]}
