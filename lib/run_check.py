import importlib
import os
import sys

HERE = os.path.dirname(os.path.abspath(__file__))
sys.path.insert(0, HERE)
import paths  # noqa: E402
sys.path.insert(0, paths.REPO)
os.chdir(paths.VERIF)

import framework  # noqa: E402


def main():
    if len(sys.argv) < 2:
        print("usage: check <Cxx> [--tier quick|thorough] [--replay file]")
        sys.exit(2)
    pid = sys.argv[1].upper()
    try:
        mod = importlib.import_module(f"checks.{pid.lower()}")
    except ModuleNotFoundError:
        print(f"no check for {pid}")
        sys.exit(2)
    framework.main(mod.run, pid)


main()
