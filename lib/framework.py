"""Common machinery of every check: tiers, seeds, evidence, known findings, VIOLATION lines."""
import json
import os
import sys
import time
import traceback

import paths

VERIF = paths.VERIF
# a run against a changed copy (VERIF_REPO) leaves the evidence of the real tree alone
EVIDENCE_DIR = os.path.join(VERIF, "evidence") if not paths.ALT else os.path.join(VERIF, "work", "alt_evidence")
REPLAY_DIR = os.path.join(VERIF, "replays") if not paths.ALT else os.path.join(VERIF, "work", "alt_replays")
KNOWN_FILE = os.path.join(VERIF, "known_findings.json")


def load_known():
    if not os.path.exists(KNOWN_FILE):
        return []
    with open(KNOWN_FILE) as f:
        return json.load(f)["findings"]


def _match(pattern, features):
    for k, want in pattern.items():
        got = features.get(k)
        if isinstance(want, list):
            if got not in want:
                return False
        elif got != want:
            return False
    return True


class Check:
    def __init__(self, pid, tier, seed, level="model_checking"):
        self.pid = pid
        self.tier = tier
        self.seed = seed
        self.level = level
        self.t0 = time.time()
        self.violations = []      # (features, text, replay_path)
        self.known_hits = {}      # finding id -> count
        self.coverage = {}
        self.assumptions = []
        self.samples = []
        self.known = [k for k in load_known()
                      if pid == k["property"] or pid in k.get("also_properties", [])]
        self.nreplay = 0
        os.makedirs(REPLAY_DIR, exist_ok=True)
        os.makedirs(EVIDENCE_DIR, exist_ok=True)

    # -- reporting ----------------------------------------------------------------------
    def report(self, features, text, replay):
        """A case on which the property does not hold.  Listed as a known finding -> noted;
        otherwise a violation with a replay file."""
        for k in self.known:
            if k.get("status") == "known" and _match(k["match"], features):
                self.known_hits[k["id"]] = self.known_hits.get(k["id"], 0) + 1
                return "known"
        self.nreplay += 1
        path = os.path.join(REPLAY_DIR, f"{self.pid}_{self.tier}_{self.nreplay}.json")
        if self.nreplay <= 20:
            with open(path, "w") as f:
                json.dump({"property": self.pid, "seed": self.seed, "tier": self.tier,
                           "features": features, "text": text, "replay": replay}, f, indent=1,
                          default=str)
        self.violations.append((features, text, path))
        return "violation"

    def add_sample(self, s, limit=3):
        if len(self.samples) < limit:
            self.samples.append(s)

    def cov_add(self, key, n=1):
        self.coverage[key] = self.coverage.get(key, 0) + n

    # -- finish -------------------------------------------------------------------------
    def finish(self):
        wall = time.time() - self.t0
        cov = dict(self.coverage)
        cov.setdefault("samples", self.samples or ["(no case)"])
        ev = {"property_id": self.pid, "tier": self.tier, "seed": self.seed, "level": self.level,
              "coverage": cov, "assumptions": self.assumptions, "wall_s": round(wall, 2),
              "violations": len(self.violations),
              "known_findings_hit": self.known_hits}
        with open(os.path.join(EVIDENCE_DIR, f"{self.pid}.json"), "w") as f:
            json.dump(ev, f, indent=1, default=str)
        for k in self.known:
            if k.get("status") == "known" and self.known_hits.get(k["id"]):
                print(f"KNOWN-FINDING: property={self.pid} {k['id']} {k['text']} "
                      f"(cases this run: {self.known_hits[k['id']]})")
        shown = set()
        for features, text, path in self.violations:
            if path in shown:
                continue
            shown.add(path)
            if len(shown) <= 20:
                print(f"VIOLATION property={self.pid} replay={path}")
                print(f"  {text}")
        if self.violations:
            import collections
            skip = {"text", "name", "kinds", "label"}
            groups = collections.Counter(
                tuple(sorted((k, str(v)) for k, v in f.items() if k not in skip)) for f, _, _ in self.violations)
            print("violating cases by feature:")
            for g, n in groups.most_common(15):
                print(f"  {n:6d} x " + " ".join(f"{k}={v}" for k, v in g))
            print(f"{self.pid} {self.tier}: {len(self.violations)} violating case(s)")
            return 1
        print(f"{self.pid} {self.tier}: ok ({wall:.1f}s) "
              + " ".join(f"{k}={v}" for k, v in cov.items() if isinstance(v, (int, float, bool))))
        return 0


def main(run_fn, pid):
    import argparse
    ap = argparse.ArgumentParser()
    ap.add_argument("--tier", default=os.environ.get("VERIF_TIER", "quick"))
    ap.add_argument("--replay", default=None)
    args = ap.parse_args(sys.argv[2:])
    seed = int(os.environ.get("VERIF_SEED", "0") or 0)
    tier = args.tier if args.tier in ("quick", "thorough") else "quick"
    try:
        rc = run_fn(pid, tier, seed, args.replay)
    except SystemExit:
        raise
    except Exception:  # machinery failure: never reported as a violation
        traceback.print_exc()
        print(f"MACHINERY-ERROR property={pid}")
        sys.exit(2)
    sys.exit(rc)
