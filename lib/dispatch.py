"""C06 harness: run several senders against ONE real machine under a controlled schedule.

threads : real threading.Thread senders, serialized by a sys.settrace handshake; a schedule is a list
          of preemptions (global line-boundary index, thread to switch to); default policy is run the
          current thread to completion.  Boundaries are the line events of the dispatch code
          (Event.__call__, StateMachine.send/_put_nonblocking/_processing_loop, engine put/processing_loop)
          and of the generated callbacks.
asyncio : tasks on an event loop whose _run_once runs exactly ONE ready handle, chosen by the schedule.

Observations (lines) are what Trace_Dispatch.tla consumes: call / B / N / E / ret / end.
"""
import asyncio
import contextvars
import re
import sys
import threading

import paths  # noqa: E402
sys.path.insert(0, paths.REPO)

from statemachine import State, StateMachine  # noqa: E402
from statemachine.factory import StateMachineMetaclass  # noqa: E402

_sender = contextvars.ContextVar("sender", default=0)


class Boom(Exception):
    pass


class Rec:
    def __init__(self):
        self.lines = []
        self.nested = 0
        self.local = threading.local()

    def who(self):
        return getattr(self.local, "sender", 0) or _sender.get()


def harness_empty():
    class EmptyListener:
        pass
    return EmptyListener()


def evkey(ev):
    return f"n{ev['n']}" if ev["nested"] else f"{ev['s']}:{ev['n']}"


def build_machine(total, plan, rec, use_async=False, yields=0):
    """c0 -tick-> c1 -tick-> ... ; one `on` callback that logs, may send a nested tick, may raise."""
    attrs = {}
    states = [State(initial=(k == 0), final=(k == total)) for k in range(total + 1)]
    for k, st in enumerate(states):
        attrs[f"c{k}"] = st
    tick = None
    for k in range(total):
        tl = states[k].to(states[k + 1])
        tick = tl if tick is None else (tick | tl)
    attrs["tick"] = tick
    if plan.get("gated"):
        # `jump` exists everywhere except in the first state: whether it fires depends on the state when its turn comes
        jump = None
        for k in range(1, total):
            tl = states[k].to(states[k + 1])
            jump = tl if jump is None else (jump | tl)
        if jump is not None:
            attrs["jump"] = jump

    def body_pre(self, who):
        s = rec.who()
        rec.lines.append({"e": "B", "s": s, "ev": who})
        return s

    if not use_async:
        def on_tick(self, who=None):
            s = body_pre(self, who)
            if evkey(who) in plan.get("listen", []):
                self.add_listener(harness_empty())     # a listener without callbacks: nothing changes
            if evkey(who) in plan.get("nested", []):
                rec.nested += 1
                k = rec.nested
                rec.lines.append({"e": "N", "s": s, "k": k})
                self.send("tick", who={"s": 0, "n": k, "nested": True})
                rec.lines.append({"e": "NR", "s": s, "k": k})
            if evkey(who) in plan.get("fail", []):
                rec.lines.append({"e": "E", "s": s, "ev": who, "raised": True})
                raise Boom()
            rec.lines.append({"e": "E", "s": s, "ev": who, "raised": False})
    else:
        async def on_tick(self, who=None):
            s = body_pre(self, who)
            for _ in range(yields):
                await asyncio.sleep(0)
            if evkey(who) in plan.get("listen", []):
                self.add_listener(harness_empty())
            if evkey(who) in plan.get("nested", []):
                rec.nested += 1
                k = rec.nested
                rec.lines.append({"e": "N", "s": s, "k": k})
                await self.send("tick", who={"s": 0, "n": k, "nested": True})
                rec.lines.append({"e": "NR", "s": s, "k": k})
            if evkey(who) in plan.get("fail", []):
                rec.lines.append({"e": "E", "s": s, "ev": who, "raised": True})
                raise Boom()
            rec.lines.append({"e": "E", "s": s, "ev": who, "raised": False})
    attrs["on_tick"] = on_tick
    if plan.get("gated"):
        attrs["on_jump"] = on_tick
    attrs["__module__"] = "vmod_dispatch"
    cls = StateMachineMetaclass("Counter", (StateMachine,), attrs)
    return cls, on_tick


def finish_line(sm):
    try:
        moves = int(sm.current_state.id[1:])
    except Exception:  # noqa: BLE001
        moves = -1
    return {"e": "end", "moves": moves}


# ------------------------------------------------------------------------------------------
# threads
# ------------------------------------------------------------------------------------------
def watched_codes(extra):
    """Code objects of the dispatch path, looked up through the public objects (never by line)."""
    from statemachine.engines.base import BaseEngine
    from statemachine.engines.sync import SyncEngine
    from statemachine.event import Event
    codes = set()
    for owner, names in ((BaseEngine, ["put"]), (SyncEngine, ["processing_loop"]), (Event, ["__call__"]),
                         (StateMachine, ["send", "_put_nonblocking", "_processing_loop"])):
        for n in names:
            f = getattr(owner, n, None)
            if f is not None and hasattr(f, "__code__"):
                codes.add(f.__code__)
    if len(codes) < 3:   # restructured: fall back to every function of the engine modules
        import statemachine.engines.base as b
        import statemachine.engines.sync as sy
        for mod in (b, sy):
            for v in vars(mod).values():
                if isinstance(v, type):
                    for f in vars(v).values():
                        if hasattr(f, "__code__"):
                            codes.add(f.__code__)
    codes |= set(extra)
    return codes


_HOT = re.compile(r"_processing|_external_queue|queue|\.put\(|popleft|\.pop\(|\.clear\(|acquire|release|locked|"
                  r"processing_loop|_put_nonblocking|append")
_hot_cache = {}


def is_hot(code, lineno):
    """Does the source line about to run touch the state the senders share (lock, queue)?  Used only to ORDER the
    exploration (preemptions right before such lines first); every line boundary stays a candidate."""
    key = (code, lineno)
    if key not in _hot_cache:
        import linecache
        _hot_cache[key] = bool(_HOT.search(linecache.getline(code.co_filename, lineno)))
    return _hot_cache[key]


_clear_cache = {}


def is_clear(code, lineno):
    """The statement that drops what is queued after a failure (found by its text: `<queue>.clear()`)."""
    key = (code, lineno)
    if key not in _clear_cache:
        import linecache
        _clear_cache[key] = bool(re.search(r"queue\w*\.clear\(\)", linecache.getline(code.co_filename, lineno)))
    return _clear_cache[key]


class LineScheduler:
    def __init__(self, n, schedule, codes):
        self.n = n
        self.schedule = dict(schedule)     # step -> tid
        self.codes = codes
        self.cv = threading.Condition()
        self.turn = 1
        self.step = 0
        self.finished = set()
        self.who_at = []                    # tid that hit boundary number k
        self.hot_at = []                    # ... and whether the line about to run touches shared state
        self.error = None

    def wait_turn(self, tid):
        with self.cv:
            while self.turn != tid:
                if not self.cv.wait(10):
                    self.error = self.error or f"scheduler stuck waiting for turn of {tid}"
                    raise RuntimeError(self.error)

    def boundary(self, tid, hot=False):
        with self.cv:
            self.step += 1
            self.who_at.append(tid)
            self.hot_at.append(hot)
            target = self.schedule.get(self.step)
            if target is not None and target != tid and target not in self.finished:
                self.turn = target
                self.cv.notify_all()
                while self.turn != tid:
                    if not self.cv.wait(10):
                        self.error = self.error or "scheduler stuck at a preemption"
                        raise RuntimeError(self.error)

    def finish(self, tid):
        with self.cv:
            self.finished.add(tid)
            rest = [t for t in range(1, self.n + 1) if t not in self.finished]
            if rest:
                self.turn = rest[0]
            self.cv.notify_all()

    def tracer(self, tid):
        codes = self.codes
        put_code, on_put = getattr(self, "put_code", None), getattr(self, "on_put", None)

        on_clear = getattr(self, "on_clear", None)
        cleared = {}        # frame -> the line that empties the queue has started

        def local(frame, event, arg):
            if on_clear is not None and cleared.pop(frame, False):
                on_clear(tid)      # ... and is done now (next line, return or exception of that frame)
            if event == "line":
                if on_clear is not None and is_clear(frame.f_code, frame.f_lineno):
                    cleared[frame] = True
                self.boundary(tid, is_hot(frame.f_code, frame.f_lineno))
            elif event == "return" and frame.f_code is put_code and on_put is not None:
                on_put(tid)        # the engine's put() has returned: the event is in the queue (or should be)
            return local

        def glob(frame, event, arg):
            if event == "call" and frame.f_code in codes:
                return local
            return None
        return glob


def run_threads(nsenders, per, plan, schedule):
    """One execution under `schedule` ([(step, tid), ...]).  Returns lines + scheduling info."""
    rec = Rec()
    total = nsenders * per + len(plan.get("nested", []))
    cls, cb = build_machine(total, plan, rec)
    sm = cls(allow_event_without_transition=bool(plan.get("gated")))
    sched = LineScheduler(nsenders, schedule, watched_codes([cb.__code__]))
    # the return of the engine's put() is observed through the tracer (no hook in the library): from then on the event
    # counts as accepted, in that order
    try:
        from statemachine.engines.base import BaseEngine
        sched.put_code = BaseEngine.put.__code__
        sched.on_put = lambda tid: rec.lines.append({"e": "put", "s": tid})
        sched.on_clear = lambda tid: rec.lines.append({"e": "clr", "s": tid})
    except Exception:  # noqa: BLE001 - restructured: puts stay internal steps that TLC infers
        sched.put_code = None
    errors = []

    def sender(tid):
        rec.local.sender = tid
        try:
            sched.wait_turn(tid)
            sys.settrace(sched.tracer(tid))
            for n in range(1, per + 1):
                rec.lines.append({"e": "call", "s": tid, "n": n})
                try:
                    sm.send("jump" if tid in plan.get("gated", []) else "tick", who={"s": tid, "n": n, "nested": False})
                    rec.lines.append({"e": "ret", "s": tid, "exc": False})
                except Boom:
                    rec.lines.append({"e": "ret", "s": tid, "exc": True})
                except Exception as e:  # noqa: BLE001
                    rec.lines.append({"e": "ret", "s": tid, "exc": True, "other": type(e).__name__ + ":" + str(e)[:60]})
        except BaseException as e:  # noqa: BLE001
            errors.append(e)
        finally:
            sys.settrace(None)
            sched.finish(tid)

    ths = [threading.Thread(target=sender, args=(t,)) for t in range(1, nsenders + 1)]
    for t in ths:
        t.start()
    for t in ths:
        t.join(30)
    if any(t.is_alive() for t in ths) or errors:
        raise RuntimeError(f"thread run failed: {errors or 'hang'}")
    rec.lines.append(finish_line(sm))
    return {"lines": rec.lines, "steps": sched.step, "who_at": sched.who_at, "hot_at": sched.hot_at,
            "senders": nsenders, "per": per}


# ------------------------------------------------------------------------------------------
# asyncio
# ------------------------------------------------------------------------------------------
class StepLoop(asyncio.SelectorEventLoop):
    """Runs exactly one ready handle per iteration; which one is decided by `choices`."""

    def __init__(self, choices):
        super().__init__()
        self.choices = list(choices)
        self.taken = []       # (number of options, index chosen) at every choice point

    def _run_once(self):
        ready = self._ready
        if not ready:
            return super()._run_once()
        n = len(ready)
        idx = 0
        if n > 1:
            k = len(self.taken)
            idx = self.choices[k] if k < len(self.choices) else 0
            idx = idx % n
            self.taken.append((n, idx))
        ready.rotate(-idx)
        handle = ready.popleft()
        ready.rotate(idx)
        if not handle._cancelled:
            handle._run()
        handle = None


def run_asyncio(ntasks, per, plan, choices, yields=1):
    rec = Rec()
    total = ntasks * per + len(plan.get("nested", []))
    cls, cb = build_machine(total, plan, rec, use_async=True, yields=yields)
    loop = StepLoop(choices)
    box = {}

    async def sender(tid, sm):
        _sender.set(tid)
        for n in range(1, per + 1):
            rec.lines.append({"e": "call", "s": tid, "n": n})
            try:
                await sm.send("jump" if tid in plan.get("gated", []) else "tick", who={"s": tid, "n": n, "nested": False})
                rec.lines.append({"e": "ret", "s": tid, "exc": False})
            except Boom:
                rec.lines.append({"e": "ret", "s": tid, "exc": True})
            except Exception as e:  # noqa: BLE001
                rec.lines.append({"e": "ret", "s": tid, "exc": True, "other": type(e).__name__ + ":" + str(e)[:60]})

    async def main():
        sm = cls(allow_event_without_transition=bool(plan.get("gated")))
        await sm.activate_initial_state()
        box["sm"] = sm
        tasks = [loop.create_task(sender(t, sm)) for t in range(1, ntasks + 1)]
        for t in tasks:
            await t

    try:
        asyncio.set_event_loop(loop)
        loop.run_until_complete(asyncio.wait_for(main(), None))
        pending = [t for t in asyncio.all_tasks(loop) if not t.done()]
    finally:
        asyncio.set_event_loop(None)
        loop.close()
    rec.lines.append(finish_line(box["sm"]))
    return {"lines": rec.lines, "taken": loop.taken, "pending": len(pending), "senders": ntasks, "per": per}


# ------------------------------------------------------------------------------------------
# label-guided replay of specification schedules (spec -> code)
# ------------------------------------------------------------------------------------------
def line_label(code, lineno):
    """Protocol label of a source line of the dispatch code, found by pattern (never by number)."""
    import linecache
    txt = linecache.getline(code.co_filename, lineno).strip()
    if "_external_queue.append(" in txt:
        return "put"
    if ".acquire(" in txt:
        return "acq"
    if txt.startswith("while") and "_external_queue" in txt:
        return "chk"
    if ".popleft()" in txt:
        return "pop"
    if "_external_queue.clear()" in txt:
        return "clr"
    if ".release()" in txt:
        return "rel"
    if txt.startswith("if") and "_external_queue" in txt and "not" not in txt:
        return "rck"
    return None


class GuidedScheduler(LineScheduler):
    """Follows a script [(sender, label), ...]: sender s runs until it has executed a line carrying
    that label, then the next script entry's sender runs.  After the script: run to completion."""

    def __init__(self, n, script, codes):
        super().__init__(n, [], codes)
        self.script = list(script)
        self.idx = 0
        self.turn = self.script[0][0] if self.script else 1
        self.pending_label = {}
        self.followed = 0

    def boundary_at(self, tid, label):
        with self.cv:
            self.step += 1
            prev = self.pending_label.get(tid)
            self.pending_label[tid] = label
            if self.idx < len(self.script) and prev is not None and self.script[self.idx] == (tid, prev):
                self.idx += 1
                self.followed += 1
                while self.idx < len(self.script) and self.script[self.idx][0] in self.finished:
                    self.idx += 1
                if self.idx < len(self.script):
                    nxt = self.script[self.idx][0]
                    if nxt != tid:
                        self.turn = nxt
                        self.cv.notify_all()
                        while self.turn != tid:
                            if not self.cv.wait(10):
                                raise RuntimeError("guided scheduler stuck")

    def finish(self, tid):
        with self.cv:
            self.finished.add(tid)
            while self.idx < len(self.script) and self.script[self.idx][0] in self.finished:
                self.idx += 1
            rest = [t for t in range(1, self.n + 1) if t not in self.finished]
            if self.idx < len(self.script):
                self.turn = self.script[self.idx][0]
            elif rest:
                self.turn = rest[0]
            self.cv.notify_all()

    def tracer(self, tid):
        codes = self.codes

        def local(frame, event, arg):
            if event == "line":
                self.boundary_at(tid, line_label(frame.f_code, frame.f_lineno))
            elif event == "return":
                # the last labelled line of a function has been executed when the function returns
                self.boundary_at(tid, None)
            return local

        def glob(frame, event, arg):
            if event == "call" and frame.f_code in codes:
                return local
            return None
        return glob


def run_threads_guided(nsenders, per, plan, script):
    rec = Rec()
    total = nsenders * per + len(plan.get("nested", []))
    cls, cb = build_machine(total, plan, rec)
    sm = cls(allow_event_without_transition=bool(plan.get("gated")))
    sched = GuidedScheduler(nsenders, script, watched_codes([cb.__code__]))
    errors = []

    def sender(tid):
        rec.local.sender = tid
        try:
            sched.wait_turn(tid)
            sys.settrace(sched.tracer(tid))
            for n in range(1, per + 1):
                rec.lines.append({"e": "call", "s": tid, "n": n})
                try:
                    sm.send("jump" if tid in plan.get("gated", []) else "tick", who={"s": tid, "n": n, "nested": False})
                    rec.lines.append({"e": "ret", "s": tid, "exc": False})
                except Boom:
                    rec.lines.append({"e": "ret", "s": tid, "exc": True})
                except Exception as e:  # noqa: BLE001 - an exception of the library is an observation
                    rec.lines.append({"e": "ret", "s": tid, "exc": True, "other": type(e).__name__ + ":" + str(e)[:60]})
        except BaseException as e:  # noqa: BLE001
            errors.append(e)
        finally:
            sys.settrace(None)
            sched.finish(tid)

    ths = [threading.Thread(target=sender, args=(t,)) for t in range(1, nsenders + 1)]
    for t in ths:
        t.start()
    for t in ths:
        t.join(30)
    if any(t.is_alive() for t in ths) or errors:
        raise RuntimeError(f"guided run failed: {errors or 'hang'}")
    rec.lines.append(finish_line(sm))
    return {"lines": rec.lines, "followed": sched.followed, "script_len": len(script),
            "senders": nsenders, "per": per}
