"""Shared legs of the engine-level checks (C01-C05, C10-C14, C16, C17):

  mc_run        TLC exhaustive check of the property formulas on System.tla over a family
  hist_replay   spec -> code: TLC's own behaviours (one per distinct quiescent end state of the
                bounded model) are replayed on the real library; the recorded executions are then
                validated like any other
  run_validate  code -> spec: scenarios executed on /repo's working tree, every recorded execution
                validated by TLC against Trace_System.tla (all invariants evaluated on the way)
"""
import json
import os
import re
import shutil

import harness
import tlc
from tlc import MachineryError

HIST_RE = re.compile(r'<<"HIST", "(.*)">>$', re.M)


def write_cfg(path, constants, invariants, properties, spec="MCSpec", view="MCView", extra=()):
    with open(path, "w") as f:
        f.write(f"SPECIFICATION {spec}\nCONSTANTS\n")
        for k, v in constants.items():
            f.write(f"  {k} = {v}\n")
        if view:
            f.write(f"VIEW {view}\n")
        for i in invariants:
            f.write(f"INVARIANT {i}\n")
        for p in properties:
            f.write(f"PROPERTY {p}\n")
        for e in extra:
            f.write(e + "\n")
        f.write("CHECK_DEADLOCK FALSE\n")


ENGINE_INVS = ["InvRTCNoNesting", "InvQuiescent", "InvExactlyOneActive", "InvOneAtATime",
               "InvViewOK", "InvPendingWF", "ResultOnlyBeforeOn", "ActivatedBeforeFirstEvent",
               "InitOnlyFromNoState"]
ENGINE_PROPS = ["PropFirstEnabledWins", "PropCurOnlyInAssign", "PropPhaseOrder", "PropQueueFIFO",
                "PropFailureState", "PropIsolation", "NoCandidateOutcome", "DroppedNeverRun",
                "ResumeRunsNothing"]


def spec_family(family):
    out = []
    for m in family:
        m2 = dict(m)
        m2["classes"] = harness.spec_classes({"classes": m["classes"]})
        out.append(m2)
    return out


def mc_run(chk, family, constants, invariants=ENGINE_INVS, properties=ENGINE_PROPS,
           required=(), module="MC_System.tla", timeout=1500, workers=16, label="mc", hist_limit=0):
    """Exhaustive TLC run; a counterexample is a violation of the property on the design.
    hist_limit > 0: the same run also prints one observable history per distinct quiescent end state; the
    scenarios built from them are returned as second element."""
    constants = dict(constants)
    constants.setdefault("MaxX", 0)
    wd = tlc.workdir("mc")
    try:
        fam = os.path.join(wd, "family.json")
        with open(fam, "w") as f:
            json.dump(spec_family(family), f)
        cfg = os.path.join(wd, "mc.cfg")
        write_cfg(cfg, constants, list(invariants) + (["PrintHist"] if hist_limit else []), properties)
        env = {"DEFS_FILE": fam}
        if hist_limit:
            env["MC_HIST"] = "1"
        rc, out, wall = tlc.run_tlc(module, cfg, env=env, workers=workers,
                                    extra=["-coverage", "1"], timeout=timeout)
        scns = []
        if hist_limit:
            seen = set()
            for m in HIST_RE.findall(out):
                txt = m.encode().decode("unicode_escape") if "\\" in m else m
                if txt in seen:
                    continue
                seen.add(txt)
                rec = json.loads(txt)
                scns.append(hist_to_scenario(family[rec["di"] - 1], rec["hist"]))
                if len(scns) >= hist_limit:
                    break
            chk.cov_add("spec_behaviours_replayed", len(scns))
            out = HIST_RE.sub("", out)
        gen_, dist = tlc.parse_stats(out)
        cov = tlc.parse_coverage(out)
        chk.cov_add("states", dist)
        chk.cov_add("transitions", gen_)
        chk.coverage.setdefault("mc_runs", []).append(
            {"label": label, "family": len(family), "constants": constants, "distinct_states": dist,
             "states_generated": gen_, "wall_s": round(wall, 1),
             "invariants": list(invariants), "properties": list(properties),
             "action_counts": {k.split(".")[-1]: v[0] for k, v in cov.items() if k.startswith("MC_")}})
        if rc != 0 or "Error:" in out:
            if "is violated" in out or "Invariant" in out and "violated" in out:
                m = re.search(r"(Invariant (\w+) is violated|Action property (\w+) is violated|"
                              r"property (\w+) is violated)", out)
                which = next((g for g in (m.groups()[1:] if m else ()) if g), "?")
                log = os.path.join(tlc.WORK, f"mc_counterexample_{chk.pid}.log")
                with open(log, "w") as f:
                    f.write(out)
                chk.report({"kind": "spec_counterexample", "formula": which},
                           f"TLC: {which} is violated on the specification (model {label})",
                           {"tlc_log_tail": out[-6000:]})
                return (cov, scns) if hist_limit else cov
            log = os.path.join(tlc.WORK, f"mc_error_{chk.pid}.log")
            with open(log, "w") as f:
                f.write(out)
            raise MachineryError(f"TLC failed (rc={rc}) in {label}; see {log}")
        for r in required:
            if cov.get(f"MC_System.{r}", (0, 0))[0] == 0:
                raise MachineryError(f"vacuity: action {r} never taken in {label}")
        return (cov, scns) if hist_limit else cov
    finally:
        shutil.rmtree(wd, ignore_errors=True)


def hist_to_scenario(member, hist, ni=1):
    """Environment choices of one specification behaviour -> an executable scenario (instances are slots h["i"])."""
    steps = []
    occ = {}
    cur_occ = {}
    script_occ = {}
    opt = None
    for h in hist:
        e = h["e"]
        i = h.get("i", 1)
        if e == "new":
            opt = h["opt"]
            steps.append({"op": "new", "i": i, "cls": 1, "opt": h["opt"], "stored": h["stored"],
                          "provs": list(member["provs"]), "gv": h["gv"]})
        elif e == "call":
            steps.append({"op": "call", "i": i, "api": "send", "ev": h["ev"], "gv": h["gv"]})
        elif e == "activate":
            steps.append({"op": "call", "i": i, "api": "activate", "gv": h["gv"]})
        elif e == "restart":
            steps.append({"op": "new", "i": i, "cls": 1, "opt": h["opt"], "stored": "", "reuse_model": True,
                          "provs": list(member["provs"]), "gv": h["gv"]})
        elif e in ("write_setter", "write_model"):
            steps.append({"op": "call", "i": i, "api": e, "v": h["v"]})
        elif e == "B":
            c = h["c"]
            occ[c] = occ.get(c, 0) + 1
            cur_occ[(i, c)] = occ[c]
            script_occ.setdefault(f"{c}:{occ[c]}", {"sends": [], "raise": False})
        elif e == "ncall":
            script_occ[f"{h['c']}:{cur_occ[(i, h['c'])]}"]["sends"].append(h["ev"])
        elif e == "xcall":
            script_occ[f"{h['c']}:{cur_occ[(i, h['c'])]}"]["sends"].append({"to": h["to"], "ev": h["ev"]})
        elif e == "E" and h["raised"]:
            script_occ[f"{h['c']}:{cur_occ[(i, h['c'])]}"]["raise"] = True
    return {"classes": member["classes"], "steps": steps, "script_occ": script_occ,
            "budget": (opt or {}).get("budget", 0), "ni": 3, "driver": member.get("driver", "sync"),
            "origin": "tlc-hist"}


def hist_scenarios(chk, family, constants, module="MC_System.tla", timeout=1500, workers=16,
                   limit=None, simulate=None, seed=0):
    """Run TLC with history recording; returns scenarios built from the printed histories."""
    wd = tlc.workdir("hist")
    try:
        fam = os.path.join(wd, "family.json")
        with open(fam, "w") as f:
            json.dump(spec_family(family), f)
        cfg = os.path.join(wd, "hist.cfg")
        constants = dict(constants)
        constants.setdefault("MaxX", 0)
        write_cfg(cfg, constants, ["PrintHist"], [])
        extra = []
        if simulate:
            extra = ["-simulate", f"num={simulate}", "-depth", "200", "-seed", str(seed)]
        rc, out, wall = tlc.run_tlc(module, cfg, env={"DEFS_FILE": fam, "MC_HIST": "1"},
                                    workers=1 if simulate else workers, extra=extra, timeout=timeout)
        if rc != 0 and not HIST_RE.search(out):
            log = os.path.join(tlc.WORK, f"hist_error_{chk.pid}.log")
            with open(log, "w") as f:
                f.write(out)
            raise MachineryError(f"TLC history run failed rc={rc}; see {log}")
        scns = []
        seen = set()
        for m in HIST_RE.findall(out):
            txt = m.encode().decode("unicode_escape") if "\\" in m else m
            if txt in seen:
                continue
            seen.add(txt)
            rec = json.loads(txt)
            member = family[rec["di"] - 1]
            scns.append(hist_to_scenario(member, rec["hist"]))
            if limit and len(scns) >= limit:
                break
        chk.cov_add("spec_behaviours_replayed", len(scns))
        return scns
    finally:
        shutil.rmtree(wd, ignore_errors=True)


def first_call_before(lines, k):
    for ln in reversed(lines[:k + 1]):
        if ln["e"] in ("call", "new"):
            return ln
    return {}


def diagnose(scn, res, v):
    """Features of a rejected execution (used for known-finding matching and for the report)."""
    lines = res["lines"]
    k = v["matched"]
    nxt = lines[k] if k < len(lines) else {"e": "<end>"}
    call = first_call_before(lines, k)
    d = scn["classes"][0]
    feats = {
        "kind": "trace_rejected",
        "at": nxt.get("e"),
        "inv": v.get("inv", ""),
        "api": call.get("api", "new" if call.get("e") == "new" else ""),
        "ev_declared": call.get("ev", "") in d.get("events", []),
        "rtc": scn["steps"][0]["opt"]["rtc"] if scn["steps"] and "opt" in scn["steps"][0] else None,
        "async": any(cb.get("coro") for cb in d["cbs"]),
        "driver": scn.get("driver", "sync"),
        "exc_kind": nxt.get("exc", {}).get("kind", "") if nxt.get("e") == "ret" else "",
    }
    return feats, nxt


def run_validate(chk, scenarios, label, shards=6, featurize=None, on_result=None):
    """Execute scenarios on the real library and validate the recorded executions with TLC."""
    batch, kept = [], []
    for scn in scenarios:
        try:
            res = harness.run_scenario(scn)
        except TimeoutError:
            # a loaded machine is not a hang: once more, alone, with ten times the allowance
            try:
                res = harness.run_scenario(dict(scn, timeout=10 * scn.get("timeout", 20)))
            except TimeoutError:
                chk.report({"kind": "hang", "label": label}, f"{label}: scenario did not terminate",
                           {"scenario": scn})
                continue
        if on_result is not None:
            on_result(scn, res)
        for note in res.get("notes", []):
            if note["kind"] == "result_awaited":
                chk.report({"kind": "result_awaited", "label": label},
                           f"{label}: the awaitable object that coroutine callback {note['c']} returned as its result was awaited "
                           f"by the library (a coroutine callback's result is a value, whatever it is)", {"scenario": scn})
                break
            if note["kind"] == "stored_value_replaced":
                chk.report({"kind": "stored_value_replaced", "label": label},
                           f"{label}: a machine was created over a model whose stored state is a member of a mixed-in enum equal to "
                           f"the state's value; the stored object was replaced (now {note['now']})", {"scenario": scn})
                break
            if note["kind"] == "foreign_default":
                chk.report({"kind": "foreign_default", "label": label},
                           f"{label}: callback {note['c']} was called with the default value of ANOTHER function's parameter "
                           f"({note['got']!r}): what a parameter defaults to belongs to the function object", {"scenario": scn})
                break
        batch.append(res)
        kept.append(scn)
    if not batch:
        return []
    verdicts, stats = tlc.validate_batch(batch, shards=shards)
    chk.cov_add("traces_validated_against_impl", len(batch))
    chk.cov_add("trace_lines", sum(len(b["lines"]) for b in batch))
    chk.cov_add("trace_states", stats["distinct"])
    chk.cov_add("states", stats["distinct"])
    chk.cov_add("transitions", stats["states"])
    nrej = 0
    for scn, res, v in zip(kept, batch, verdicts):
        if res.get("orphans"):
            feats = {"kind": "orphan_tasks", "label": label}
            if featurize:
                feats.update(featurize(scn, res, v))
            chk.report(feats, f"{label}: {res['orphans']} coroutine callback(s) still pending when the "
                       "caller had its answer", {"scenario": scn, "observed": res["lines"]})
        if v["ok"]:
            if len(chk.samples) < 2:
                chk.add_sample({"label": label, "steps": scn["steps"][:4],
                                "trace_head": res["lines"][:6], "lines": len(res["lines"])})
            continue
        nrej += 1
        feats, nxt = diagnose(scn, res, v)
        feats["label"] = label
        if featurize:
            feats.update(featurize(scn, res, v))
        text = (f"{label}: execution is not a behaviour of the specification: matched {v['matched']} of "
                f"{v['lines']} lines; first unexplained line: {json.dumps(nxt)[:300]}"
                + (f"; invariant {v['inv']} failed" if v.get("inv") else ""))
        ss = v.get("spec_state")
        if ss:
            text += (f"; the specification was at: instance {ss['i']} phase={ss['phase']} event={ss['ev']!r} "
                     f"transition#{ss['tix']} {ss['src']}->{ss['tgt']} pending callbacks={ss['pending']} open={ss['open']} "
                     f"current state={ss['cur']!r} queued={ss['queued']} raising={ss['raising']} out={ss['out']}")
        chk.report(feats, text, {"scenario": scn, "observed": res["lines"], "matched": v["matched"],
                                 "expected_next": ss, "warnings": res.get("warnings", [])})
    chk.cov_add("traces_rejected", nrej)
    return verdicts


def replay_file(chk, path, featurize=None):
    """--replay: re-run the scenario of a replay file on the current tree and validate it."""
    with open(path) as f:
        rep = json.load(f)
    scn = rep["replay"].get("scenario")
    if scn is None:
        print("replay file has no executable scenario (specification-level counterexample):")
        print(rep["replay"].get("tlc_log_tail", "")[-3000:])
        return 1
    vs = run_validate(chk, [scn], "replay", shards=1, featurize=featurize)
    return 0 if vs and vs[0]["ok"] and not chk.violations else 1


def nonrtc_leg(chk, rng, n, shards, events=None, tweak=None, featurize=None):
    """rtc=False histories in which the actions of self / internal transitions send events that leave the state (run
    depth-first inside the transition in progress), validated against the specification like every other execution."""
    import gen
    scns = []
    for _ in range(n):
        scn = gen.nonrtc_nesting_scenario(rng, events=events)
        if tweak:
            tweak(scn)
        scns.append(scn)
    run_validate(chk, scns, "non-RTC nesting on self/internal transitions", shards=shards, featurize=featurize)


def standard(chk, rng, *, family_kw, consts, required, scen_fn, n_random, n_hist, fam_size,
             shards, label, hist_consts=None):
    """The three legs shared by the engine-level checks."""
    import gen
    fam = [gen.family_member(rng, **family_kw) for _ in range(fam_size)]
    _cov, hs = mc_run(chk, fam, consts, required=required, label=f"{label} family", hist_limit=n_hist)
    run_validate(chk, hs, f"{label}: spec-behaviour replay", shards=shards)
    run_validate(chk, [scen_fn(rng) for _ in range(n_random)], f"{label}: random scenarios", shards=shards)
    return fam
