"""Harness: abstract definitions -> real python-statemachine classes, and a scenario runner that
records every observable step (API call/return, callback begin/end with injected arguments,
nested sends) as trace lines for Trace_System.tla.

Nothing here decides a property: it only builds inputs and records observations.  The oracle is
the TLA+ specification checked by TLC (lib/tlc.py).
"""
import asyncio
import contextvars
import copy
import pickle
import sys
import threading
import warnings

import paths  # noqa: E402
sys.path.insert(0, paths.REPO)

from statemachine import State, StateMachine  # noqa: E402
from statemachine.exceptions import (  # noqa: E402
    InvalidDefinition,
    InvalidStateValue,
    TransitionNotAllowed,
)
from statemachine.factory import StateMachineMetaclass  # noqa: E402

_depth = contextvars.ContextVar("vdepth", default=0)


import enum


class _StrEnum(str, enum.Enum):
    pass


class VEnum(enum.Enum):
    A = "a"
    B = "b"
    C = "c"
    D = "d"
    E = "e"
    F = "f"


def decode_value(v):
    """JSON-able tagged value -> Python value ({"t": "int", "v": 0}, {"t": "enum", "v": "A"}, ...)."""
    if isinstance(v, dict) and "t" in v:
        t = v["t"]
        if t == "int":
            return int(v["v"])
        if t == "str":
            return str(v["v"])
        if t == "enum":
            return VEnum[v["v"]]
        if t == "tuple":
            return tuple(v["v"])
        if t == "bool":
            return bool(v["v"])
        raise ValueError(t)
    return v


TRUTHY = [True, 1, 2, "yes", [0], (None,)]
FALSY = [False, 0, "", [], None, ()]


class Runaway(BaseException):
    """The scenario produced far more observations than any bounded scenario can: an unbounded chain of events."""


class Boom(Exception):
    def __init__(self, c):
        super().__init__(f"boom {c}")
        self.c = c


# a failing callback may raise any kind of exception: the same failure under several built-in base classes
BOOMS = [Boom] + [type(f"Boom{b.__name__}", (Boom, b), {})
                  for b in (AttributeError, KeyError, ValueError, TypeError, LookupError, RuntimeError, OSError)]


def boom(c):
    return BOOMS[c % len(BOOMS)](c)


class Cancelled(BaseException):
    """What a callback gets when its task is cancelled (asyncio.CancelledError is a BaseException): used only for the
    enter callbacks of an EXPLICIT initial activation with nothing else queued - there the outcome is the same as for any
    failure (the activation is over, the state is stored, the machine is usable); elsewhere what a non-Exception failure
    does to the queue is outside the model."""

    def __init__(self, c):
        super().__init__(f"cancelled {c}")
        self.c = c


class RetObj(list):
    """Unique, identity-comparable return value (list subclass so it may be truthy or falsy)."""

    def __init__(self, token, truthy):
        super().__init__([token] if truthy else [])
        self.token = token

    def __hash__(self):
        return id(self)

    def __eq__(self, other):
        return self is other


class AwaitableValue:
    """A value with __await__ (job handle, future-like) that a coroutine callback returns as its RESULT.  Awaiting it is a
    mistake of whoever does it: it is recorded, and it yields the opposite of the object's truthiness."""

    def __init__(self, rt, c, truthy):
        self.rt, self.c, self.truthy = rt, c, truthy

    def __bool__(self):
        return self.truthy

    def __await__(self):
        self.rt.notes.append({"kind": "result_awaited", "c": self.c})
        return (not self.truthy)
        yield  # pragma: no cover - makes this a generator


class RetExc(Exception):
    """An exception INSTANCE handed back as a value ("errors as values"): returned, never raised."""

    def __init__(self, token):
        super().__init__(token)
        self.token = token


class RetTuple(tuple):
    def __new__(cls, token, truthy):
        self = super().__new__(cls, (token, 0) if truthy else ())
        self.token = token
        return self


class RetDict(dict):
    def __init__(self, token, truthy):
        super().__init__({"token": token} if truthy else {})
        self.token = token


class RetStr(str):
    def __new__(cls, token, truthy):
        self = super().__new__(cls, token if truthy else "")
        self.token = token
        return self


RET_TYPES = (RetObj, RetExc, RetTuple, RetDict, RetStr)


def make_ret(token, c):
    """The Python value behind an abstract return token: by callback number, a truthy or falsy list, tuple, dict or
    string, or an exception instance - each recognisable by identity."""
    kind = c % 9
    if kind == 2:
        return RetExc(token)
    cls = (RetObj, RetObj, None, RetTuple, RetTuple, RetDict, RetDict, RetStr, RetStr)[kind]
    return cls(token, truthy=kind in (0, 3, 5, 7))


# ------------------------------------------------------------------------------------------
# Recorder
# ------------------------------------------------------------------------------------------
class Recorder:
    def __init__(self, scn):
        self.scn = scn
        self.lines = []
        self.cur_slot = 0
        self.cur_def = None
        self.ninv = 0
        self.budget = 0
        self.gv = {"none": True}
        self.fail_at = set(scn.get("failAt", []))
        self.script = {int(k): v for k, v in scn.get("script", {}).items()}
        self.script_occ = scn.get("script_occ")   # {"c:occ": {"sends": [...], "raise": bool}}
        self.occ = {}
        self.retobjs = {}
        self.loops = set()
        self.notes = []
        self.sender = None  # C06: sender tag of the running thread/task
        # "ctor_pre": inside a constructor before its first callback (attribute reads are the library resolving
        # names), "registering": inside add_listener / copy, "live": attribute reads are guard evaluations
        self.mode = "live"
        self.in_explicit_activation = False   # inside sm.activate_initial_state() called by the driver
        self.runner = None      # set by Runner: cross-instance sends need the other machines
        self.chain = []         # slots on Python's call stack, outermost first (cross-instance sends)
        self.slot_by_id = {}    # id(machine) -> slot, for callbacks that run while another slot is being called

    @staticmethod
    def _key(obj):
        # the library hands callbacks a weakref.proxy of the machine in some contexts (initial activation): the instance
        # dictionary is the same object either way
        try:
            return id(obj.__dict__)
        except Exception:  # noqa: BLE001
            return id(obj)

    def slot_of(self, machine):
        if machine is None:
            return self.cur_slot
        return self.slot_by_id.get(self._key(machine), self.cur_slot)

    def register(self, machine, slot):
        for k in [k for k, v in self.slot_by_id.items() if v == slot]:
            del self.slot_by_id[k]
        if machine is not None:
            self.slot_by_id[self._key(machine)] = slot

    # -- values -------------------------------------------------------------------------
    def retval(self, slotkey, c, token):
        if token == "none":
            return None
        key = (slotkey, c)
        if key not in self.retobjs:
            self.retobjs[key] = make_ret(token, c)
        return self.retobjs[key]

    def classify(self, value):
        if value is None:
            return {"k": "none", "items": []}
        if isinstance(value, RET_TYPES):
            return {"k": "one", "items": [value.token]}
        if type(value) is list:
            items = []
            for x in value:
                if x is None:
                    items.append("none")
                elif isinstance(x, RET_TYPES):
                    items.append(x.token)
                else:
                    items.append("?" + type(x).__name__)
            return {"k": "list", "items": items}
        return {"k": "one", "items": ["?" + type(value).__name__]}

    # -- lines --------------------------------------------------------------------------
    def emit(self, line):
        if self.sender is not None:
            line["task"] = self.sender
        self.lines.append(line)
        if len(self.lines) > self.scn.get("max_lines", 120000):
            raise Runaway(f"more than {len(self.lines) - 1} trace lines")

    def view_of(self, machine):
        try:
            return machine.current_state.id
        except InvalidStateValue:
            v = getattr(machine.model, machine.state_field, None)
            return "none" if v is None else "invalid"

    def begin_property(self, c, owner):
        """A guard given as a property / attribute is being read (no injected arguments)."""
        self.ninv += 1
        pslot = getattr(owner, "__dict__", {}).get("_vslot", 0) if owner is not None else 0
        self.last_slot = (self.slot_by_id.get(self._key(owner)) if owner is not None else None) or self.cur_slot
        self.emit({"e": "B", "i": self.last_slot, "c": c, "inj": False, "view": "", "st": "", "src": "", "tgt": "", "evn": "",
                   "nest": _depth.get(), "pyd": 0,
                   "pslot": getattr(owner, "__dict__", {}).get("_vslot", 0) if owner is not None else 0})
        return self.ninv

    def begin(self, c, machine, event, source, target, state, owner=None):
        self.ninv += 1
        if self.mode == "ctor_pre":
            self.mode = "live"
        try:
            self.loops.add(asyncio.get_running_loop())
        except RuntimeError:
            pass
        sid = lambda s: (s.id if s is not None else "")  # noqa: E731
        pyd = 0
        if self.scn.get("pydepth"):
            fr = sys._getframe()
            while fr is not None:
                pyd += 1
                fr = fr.f_back
        self.last_slot = self.slot_of(machine)
        self.emit(
            {
                "e": "B",
                "i": self.last_slot,
                "c": c,
                "inj": True,
                "view": self.view_of(machine),
                "st": sid(state),
                "src": sid(source),
                "tgt": sid(target),
                "evn": str(event),
                "nest": _depth.get(),
                "pyd": pyd,
                "pslot": getattr(owner, "__dict__", {}).get("_vslot", 0) if owner is not None else 0,
            }
        )
        return self.ninv

    def end(self, c, raised, slot=None):
        self.emit({"e": "E", "i": self.cur_slot if slot is None else slot, "c": c, "raised": raised})

    def ncall(self, c, ev, slot=None):
        self.emit({"e": "ncall", "i": self.cur_slot if slot is None else slot, "c": c, "ev": ev})

    def nret(self, c, value, cmp=True, slot=None):
        self.emit(
            {"e": "nret", "i": self.cur_slot if slot is None else slot, "c": c, "cmp": cmp, "res": self.classify(value)}
        )

    # -- a callback writes the model field itself ------------------------------------------------
    def cbwrite(self, slot, c, machine, token):
        r = self.runner
        if r is None:
            return
        k = r.cls_of.get(slot, 1)
        setattr(machine.model, machine.state_field, r.value_of(k, token))
        self.emit({"e": "cbw", "i": slot, "c": c, "v": token})

    # -- a callback takes a copy of its machine, in the middle of the transition ---------------
    def cbcopy(self, slot, c, machine, op):
        r = self.runner
        j = op["copy"]
        if r is None or j in r.sm or slot not in r.sm:
            return
        mode, self.mode = self.mode, "registering"
        try:
            real = r.sm[slot]              # (callbacks may hold a weakref.proxy of the machine)
            clone = copy.deepcopy(real) if op.get("how", "deepcopy") == "deepcopy" else pickle.loads(pickle.dumps(real))
        finally:
            self.mode = mode
        r.adopt_clone(slot, j, real, clone)
        self.emit({"e": "cbcopy", "i": slot, "c": c, "j": j})

    # -- a callback of one machine sends an event to another machine -------------------------
    def xtarget(self, slot, snd, coro_caller):
        """The machine a cross-instance send goes to, or None when the send is skipped: unknown / own slot, a busy
        non-RTC machine (re-entering it is outside the model), or an async machine called from a plain function
        while a loop runs (nobody could await what comes back)."""
        r = self.runner
        j = snd["to"]
        if r is None or j == slot or j not in r.sm:
            return None
        if j in self.chain and not r.opts[j]["rtc"]:
            return None
        if r.async_hint.get(j) and not coro_caller:
            try:
                asyncio.get_running_loop()
                return None
            except RuntimeError:
                pass
        return r.sm[j]

    def xenter(self, slot, c, j, ev):
        self.emit({"e": "xcall", "i": slot, "c": c, "to": j, "ev": ev, "gv": dict(self.gv)})
        self.chain.append(j)
        saved = (self.cur_slot, _depth.set(0))
        self.cur_slot = j
        return saved

    def xleave(self, slot, c, j, saved, outcome):
        self.cur_slot = saved[0]
        _depth.reset(saved[1])
        self.chain.pop()
        self.runner.ret_line(slot, outcome, kind="xret", extra={"c": c, "to": j}, cls_slot=j)


# ------------------------------------------------------------------------------------------
# Callback factory
# ------------------------------------------------------------------------------------------
def make_callback(rt, c, cb, slot_getter=None):
    """Python callable for abstract callback c.  `self` is present for methods."""
    is_guard = cb["group"] == "cond"
    coro = cb.get("coro", False)
    yields = cb.get("yields", 0)
    token = cb.get("ret", "none")
    always_raises = cb.get("raises", False)

    def pre(machine, event, source, target, state, owner=None):
        n = rt.begin(c, machine, event, source, target, state, owner)
        rt.occ[c] = rt.occ.get(c, 0) + 1
        return n, rt.last_slot

    def own_default(vtag):
        if vtag != c:
            rt.notes.append({"kind": "foreign_default", "c": c, "got": vtag})

    def plan_of():
        if rt.script_occ is None:
            return None
        return rt.script_occ.get(f"{c}:{rt.occ.get(c, 0)}", {"sends": [], "raise": False})

    def sends_of():
        p = plan_of()
        if p is not None:
            return list(p["sends"]), True
        return rt.script.get(c, []), False

    def finish(n, machine, slot=None):
        p = plan_of()
        if p is not None:
            boom = p["raise"]
        else:
            boom = always_raises or n in rt.fail_at or (
                cb["group"] == "validators" and cb["gname"] != "none"
                and not rt.gv.get(cb["gname"], True))
        if boom:
            rt.end(c, True, slot)
            if rt.scn.get("cancel_activation") and rt.in_explicit_activation and not rt.script.get(c):
                raise Cancelled(c)
            raise globals()["boom"](c)
        rt.end(c, False, slot)
        if is_guard:
            # truthy / falsy values of any type, not just True / False (chosen by invocation number: deterministic)
            v = rt.gv.get(cb["gname"], False)
            if coro and cb.get("style") != "property" and n % 7 == 6:
                # what a COROUTINE guard hands back may itself be awaitable (a job handle, a future): it is a value like
                # any other - its truthiness counts, nobody awaits it
                return AwaitableValue(rt, c, truthy=v)
            return (TRUTHY if v else FALSY)[n % 6]
        if coro and cb["group"] in ("exit", "enter", "after") and n % 5 == 4:
            return AwaitableValue(rt, c, truthy=True)     # a discarded result stays un-awaited, too
        return rt.retval(id(machine.model) if machine is not None else 0, c, token)

    if not coro:

        def body(machine, event, source, target, state, owner=None):
            n, slot = pre(machine, event, source, target, state, owner)
            tok = _depth.set(_depth.get() + 1)
            try:
                sends, planned = sends_of()
                for ev in sends:
                    if rt.budget <= 0 and not planned:
                        break
                    if isinstance(ev, dict) and "write" in ev:
                        rt.cbwrite(slot, c, machine, ev["write"])
                        continue
                    if isinstance(ev, dict) and "copy" in ev:
                        rt.cbcopy(slot, c, machine, ev)
                        continue
                    if isinstance(ev, dict) and "listen" in ev:
                        # a listener WITHOUT any callback attached in the middle of the transition: nothing changes
                        machine.add_listener(EmptyListener())
                        continue
                    if isinstance(ev, dict):          # to another machine
                        tgt = rt.xtarget(slot, ev, False)
                        if tgt is None:
                            continue
                        rt.budget -= 1
                        saved = rt.xenter(slot, c, ev["to"], ev["ev"])
                        try:
                            out = ("ret", tgt.send(ev["ev"]))
                        except Exception as e:  # noqa: BLE001 - the callback catches what the other machine raises
                            out = ("exc", e)
                        rt.xleave(slot, c, ev["to"], saved, out)
                        continue
                    rt.budget -= 1
                    rt.ncall(c, ev, slot)
                    r = machine.send(ev)
                    if asyncio.iscoroutine(r):
                        # plain function on an async machine: the facade hands back a coroutine
                        # that nobody can await; the event is queued already
                        r.close()
                        rt.nret(c, None, cmp=False, slot=slot)
                    else:
                        rt.nret(c, r, slot=slot)
            finally:
                _depth.reset(tok)
            return finish(n, machine, slot)

        if cb.get("defer"):
            # a plain callable that RETURNS an awaitable (e.g. a coroutine function behind an async-unaware decorator):
            # not a coroutine function for the library, but what it returns must be awaited on the async engine
            async def dbody(machine, event, source, target, state, owner=None):
                return body(machine, event, source, target, state, owner)

            def method(self, *, event=None, source=None, target=None, state=None, machine=None):
                return dbody(machine, event, source, target, state, self)

            def function(*, event=None, source=None, target=None, state=None, machine=None):
                return dbody(machine, event, source, target, state)
        else:
            # (vtag: a parameter of the callback's own, with a default that differs from function to function although all
            # of them come from this one `def`: what a parameter defaults to belongs to the function object)
            def method(self, *, event=None, source=None, target=None, state=None, machine=None, vtag=c):
                own_default(vtag)
                return body(machine, event, source, target, state, self)

            def function(*, event=None, source=None, target=None, state=None, machine=None, vtag=c):
                own_default(vtag)
                return body(machine, event, source, target, state)

    else:

        async def abody(machine, event, source, target, state, owner=None):
            n, slot = pre(machine, event, source, target, state, owner)
            tok = _depth.set(_depth.get() + 1)
            try:
                for _ in range(yields):
                    await asyncio.sleep(0)
                sends, planned = sends_of()
                for ev in sends:
                    if rt.budget <= 0 and not planned:
                        break
                    if isinstance(ev, dict) and "write" in ev:
                        rt.cbwrite(slot, c, machine, ev["write"])
                        continue
                    if isinstance(ev, dict) and "copy" in ev:
                        rt.cbcopy(slot, c, machine, ev)
                        continue
                    if isinstance(ev, dict) and "listen" in ev:
                        machine.add_listener(EmptyListener())
                        continue
                    if isinstance(ev, dict):          # to another machine
                        tgt = rt.xtarget(slot, ev, True)
                        if tgt is None:
                            continue
                        rt.budget -= 1
                        saved = rt.xenter(slot, c, ev["to"], ev["ev"])
                        try:
                            r = tgt.send(ev["ev"])
                            if asyncio.iscoroutine(r) or asyncio.isfuture(r):
                                r = await r
                            out = ("ret", r)
                        except Exception as e:  # noqa: BLE001
                            out = ("exc", e)
                        rt.xleave(slot, c, ev["to"], saved, out)
                        continue
                    rt.budget -= 1
                    rt.ncall(c, ev, slot)
                    r = machine.send(ev)
                    if asyncio.iscoroutine(r) or asyncio.isfuture(r):
                        r = await r
                    rt.nret(c, r, slot=slot)
            finally:
                _depth.reset(tok)
            return finish(n, machine, slot)

        async def method(self, *, event=None, source=None, target=None, state=None, machine=None, vtag=c):
            own_default(vtag)
            return await abody(machine, event, source, target, state, self)

        async def function(*, event=None, source=None, target=None, state=None, machine=None, vtag=c):
            own_default(vtag)
            return await abody(machine, event, source, target, state)

    name = cb["name"]
    for f in (method, function):
        f.__name__ = name
        f.__qualname__ = name
    if cb.get("style") == "property":
        def getter(self_):
            if rt.mode != "live":
                return True          # the library resolving the name, not a guard evaluation
            n = rt.begin_property(c, self_)
            rt.occ[c] = rt.occ.get(c, 0) + 1
            return finish(n, None, rt.last_slot)
        getter.__name__ = name
        method = property(getter)
    return method, function


GROUP_ORDER = ["validators", "cond", "before", "exit", "on", "enter", "after"]


def make_alias_dispatch(members):
    """ONE Python callable registered for several groups of the same transition / state (before="audit", on="audit",
    after="audit"; State(enter=f, exit=f)).  members: [(c, cb, method, function)] of the abstract callbacks it stands
    for, in phase order.  Which of them an invocation is follows from the execution it belongs to: the k-th call with one
    and the same event_data object is the k-th group (a state's enter / exit is told apart by source and target unless
    the transition is an external self transition, where exit comes first)."""
    members = sorted(members, key=lambda m: GROUP_ORDER.index(m[1]["group"]))
    seen = {}
    is_state = members[0][1]["okind"] == "S"
    owner = members[0][1]["owner"]

    def pick(event_data, source, target):
        if is_state:
            sid, tid = getattr(source, "id", None), getattr(target, "id", None)
            if not (sid == owner and tid == owner):
                g = "enter" if tid == owner else "exit"
                for m in members:
                    if m[1]["group"] == g:
                        return m
        rec = seen.setdefault(id(event_data), [event_data, 0])     # (the object is kept: its id cannot be reused)
        k = rec[1]
        rec[1] += 1
        return members[min(k, len(members) - 1)]

    if any(m[1].get("coro") for m in members):
        async def method(self, *, event=None, source=None, target=None, state=None, machine=None, event_data=None):
            return await pick(event_data, source, target)[2](self, event=event, source=source, target=target, state=state,
                                                             machine=machine)

        async def function(*, event=None, source=None, target=None, state=None, machine=None, event_data=None):
            return await pick(event_data, source, target)[3](event=event, source=source, target=target, state=state,
                                                             machine=machine)
    else:
        def method(self, *, event=None, source=None, target=None, state=None, machine=None, event_data=None):
            return pick(event_data, source, target)[2](self, event=event, source=source, target=target, state=state, machine=machine)

        def function(*, event=None, source=None, target=None, state=None, machine=None, event_data=None):
            return pick(event_data, source, target)[3](event=event, source=source, target=target, state=state, machine=machine)

    name = members[0][1]["name"]
    for f in (method, function):
        f.__name__ = name
        f.__qualname__ = name
    return method, function


# ------------------------------------------------------------------------------------------
# Definition -> class
# ------------------------------------------------------------------------------------------
GROUP_KW = {
    "validators": "validators",
    "before": "before",
    "on": "on",
    "after": "after",
}

_class_counter = [0]
import types as _types  # noqa: E402

# generated machine / provider classes live in a real module so that pickle can find them by name
vmod = sys.modules.setdefault("vmod", _types.ModuleType("vmod"))


def cb_name(c, cb):
    """Attribute name of abstract callback c (fixed by its kind for naming conventions)."""
    k, g = cb["okind"], cb["group"]
    if cb.get("style", "convention") == "convention" or k in ("E", "GT", "GS"):
        if k == "E":
            return f"{g}_{cb['owner']}"
        if k == "GT":
            return f"{g}_transition"
        if k == "GS":
            return f"on_{g}_state"
        if k == "S":
            return f"on_{g}_{cb['owner']}"
    return cb.get("name") or f"cb{c}_{g}"


def normalize_def(d):
    """Fill derived fields (callback names, declared event order) in place; returns d."""
    for c, cb in enumerate(d["cbs"], start=1):
        cb.setdefault("style", "convention" if cb["okind"] in ("E", "GT", "GS") else "name")
        cb.setdefault("coro", False)
        cb.setdefault("yields", 0)
        cb.setdefault("gname", "none")
        cb.setdefault("expected", True)
        cb.setdefault("ret", "none")
        cb.setdefault("owner", "")
        cb.setdefault("tix", 0)
        cb.setdefault("evcb", "")
        if cb["evcb"]:
            cb["ret"] = "none"     # an event used as action returns what the (queued) send returns: None
            cb["coro"] = False
        if cb.get("style") == "property":
            cb["coro"] = False     # a property getter is never a coroutine function
            cb["yields"] = 0
        cb["name"] = cb_name(c, cb)
    # alias sets (one callable for several groups of one owner) must still be ONE callable after what a check did to the
    # definition: same provider, style, name and owner, all plain functions or all coroutines; otherwise they are unrelated
    sets = {}
    for cb in d["cbs"]:
        if cb.get("alias"):
            sets.setdefault(cb["alias"], []).append(cb)
    for label, allm in sets.items():
        parts = {}
        for cb in allm:
            parts.setdefault((cb["prov"], cb["style"], cb["name"], cb["okind"], cb["owner"], cb["tix"]), []).append(cb)
        for n, members in enumerate(parts.values()):
            groups = [cb["group"] for cb in members]
            if len(members) < 2 or len(set(groups)) != len(groups) or members[0]["style"] not in ("name", "callable", "method"):
                for cb in members:
                    cb.pop("alias", None)
                continue
            coro = any(cb["coro"] for cb in members)
            ys = max(cb["yields"] for cb in members)
            for cb in members:
                cb["alias"] = label if len(parts) == 1 else f"{label}.{n}"
                cb["coro"], cb["yields"] = coro, (ys if coro else 0)
                cb.pop("defer", None)
    d.setdefault("evstyle", "param")
    d.setdefault("strict", False)
    d["events"] = declared_events(d)
    return d


def declared_events(d):
    """Order in which the metaclass registers the events for this declaration style."""
    out = []
    if d.get("evstyle", "param") == "param":
        for s in d["states"]:
            for t in d["trans"]:
                if t["src"] == s["id"]:
                    for e in t["evs"]:
                        if e not in out:
                            out.append(e)
    else:
        out = list(d["evorder"])
    return out


def _never(*args, **kwargs):
    return False


class EmptyListener:
    """A listener without a single callback (module-level: machines that carry one can still be pickled)."""


class SharedHelper:
    """An external helper object handed to the declaration as `helper.record`: every callback given this way is a bound
    method of this ONE function on its own instance - a.record and b.record are two callbacks, not one."""

    def __init__(self, fn):
        self._fn = fn

    def record(self, *, event=None, source=None, target=None, state=None, machine=None):
        return self._fn(event=event, source=source, target=target, state=state, machine=machine)


class ForwardingProxy:
    def __init__(self, target):
        self.__dict__["_target"] = target

    def __getattr__(self, name):
        return getattr(self.__dict__["_target"], name)

    def __dir__(self):
        return dir(self.__dict__["_target"])


class Bag:
    """One class for every attribute-bag provider: callbacks and the state field are per-instance attributes."""


class Built:
    """A real class plus the factories for its providers."""

    def __init__(self, rt, d, base=None):
        self.rt = rt
        self.d = d
        self.base = base            # Built of the base class (inheritance), or None
        self.cls = None
        self.provider_methods = {}  # prov -> {name: function}
        self.build()

    def build(self):
        d, rt = self.d, self.rt
        _class_counter[0] += 1
        clsname = d["fixed_name"] if d.get("fixed_name") else f"{d.get('name', 'M')}_{_class_counter[0]}"
        self.clsname = clsname
        states = {}
        attrs = {}
        by_prov = {}
        funcs = {}
        inst_attrs = {}
        for c, cb in enumerate(d["cbs"], start=1):
            method, function = make_callback(rt, c, cb)
            if d.get("collide_qualnames") and not isinstance(method, property):
                method.__qualname__ = f"{clsname}.{cb['name']}"
                function.__qualname__ = cb["name"]
            else:
                # realistic qualified names: <owner class>.<method>; unique per built class so the
                # library's process-global signature cache cannot mix up unrelated scenarios
                owner = clsname if cb["prov"] == "sm" else f"P_{cb['prov']}_{_class_counter[0]}"
                if not isinstance(method, property):
                    method.__qualname__ = f"{owner}.{cb['name']}"
                function.__qualname__ = f"mod_{_class_counter[0]}.{cb['name']}"
            if d.get("anon_callables") and cb["style"] == "callable" and not cb.get("alias"):
                # callables that are all CALLED the same (lambdas, closures of one factory): each is its own object
                function.__name__ = "<lambda>"
                function.__qualname__ = f"mod_{_class_counter[0]}.<lambda>"
            funcs[c] = (method, function)
            style = cb["style"]
            if style == "event":
                continue
            if cb.get("inst_attr") and cb["prov"] == "sm" and style in ("name", "convention") and not cb.get("alias"):
                # the machine keeps this callback as a plain INSTANCE attribute, set in __init__ before super().__init__()
                inst_attrs[cb["name"]] = method
            elif style in ("name", "convention", "property"):
                by_prov.setdefault(cb["prov"], {})[cb["name"]] = method
            elif style in ("method", "decorator"):
                by_prov.setdefault("sm", {})[cb["name"]] = method
        # one callable standing for several groups of one owner (cb["alias"] = label of the set)
        sets = {}
        for c, cb in enumerate(d["cbs"], start=1):
            if cb.get("alias"):
                sets.setdefault(cb["alias"], []).append((c, cb, funcs[c][0], funcs[c][1]))
        for members in sets.values():
            if len(members) < 2:
                continue
            dm, df = make_alias_dispatch(members)
            q = funcs[members[0][0]]
            dm.__qualname__, df.__qualname__ = q[0].__qualname__, q[1].__qualname__
            for c, cb, _m, _f in members:
                funcs[c] = (dm, df)
                if cb["style"] == "name":
                    by_prov.setdefault(cb["prov"], {})[cb["name"]] = dm
                elif cb["style"] == "method":
                    by_prov.setdefault("sm", {})[cb["name"]] = dm
        self.provider_methods = by_prov
        self.provider_functions = {p: {cb["name"]: funcs[c][1] for c, cb in enumerate(d["cbs"], start=1)
                                       if cb["prov"] == p and cb["style"] in ("name", "convention") and c in funcs}
                                   for p in by_prov}

        recorders = self.__dict__.setdefault("recorders", {})

        def ref(c, cb):
            style = cb["style"]
            if style in ("name", "property"):
                return cb["name"]
            if style == "event":
                return cb["evcb"]        # an event of the machine used as an action
            if style == "callable":
                if d.get("shared_bound") and not cb["coro"] and not cb.get("defer") and not cb.get("alias"):
                    return recorders.setdefault(c, SharedHelper(funcs[c][1])).record
                return funcs[c][1]
            if style == "method":
                return funcs[c][0]
            return None

        if d.get("shadow_attr"):
            attrs["tag_shadow"] = ""      # a class-level default that instances override (Runner api set_attr)
        # states, with inline enter/exit references
        if d.get("states_enum"):
            # States.from_enum over an Enum class that several machine classes of the scenario share
            from statemachine.states import States
            enums = rt.__dict__.setdefault("enums", {})
            key = (d["states_enum"], tuple(s["id"] for s in d["states"]))
            if key not in enums:
                enums[key] = enum.Enum("E_" + d["states_enum"], {s["id"]: k + 1 for k, s in enumerate(d["states"])})
            E = enums[key]
            sts = States.from_enum(E, initial=[E[s["id"]] for s in d["states"] if s["initial"]][0],
                                   final=[E[s["id"]] for s in d["states"] if s["final"]], use_enum_instance=False)
            attrs["_sts"] = sts
            for s in d["states"]:
                states[s["id"]] = getattr(sts, s["id"])
        for s in d["states"]:
            if d.get("states_enum"):
                break
            if s.get("inherited"):
                states[s["id"]] = getattr(self.base.cls, s["id"])   # the base's State object itself
                continue
            kw = {}
            for g in ("enter", "exit"):
                refs = [
                    ref(c, cb)
                    for c, cb in enumerate(d["cbs"], start=1)
                    if cb["okind"] == "S" and cb["owner"] == s["id"] and cb["group"] == g
                    and cb["style"] in ("name", "callable", "method")
                ]
                if refs:
                    kw[g] = refs if len(refs) > 1 else refs[0]
            if "value" in s and s["value"] is not None:
                kw["value"] = decode_value(s["value"])
            if s.get("name"):
                kw["name"] = s["name"]
            st = State(initial=s["initial"], final=s["final"], **kw)
            states[s["id"]] = st
            attrs[s["id"]] = st
        # state decorators
        for c, cb in enumerate(d["cbs"], start=1):
            if cb["okind"] == "S" and cb["style"] == "decorator":
                getattr(states[cb["owner"]], cb["group"])(funcs[c][0])
        # transitions in DSL call order
        tls = {}
        for j, t in enumerate(d["trans"], start=1):
            if t.get("inherited"):
                continue
            kw = {}
            mine = [
                (c, cb) for c, cb in enumerate(d["cbs"], start=1)
                if cb["okind"] == "T" and cb["tix"] == j
            ]
            for g in ("validators", "before", "on", "after"):
                refs = [ref(c, cb) for c, cb in mine
                        if cb["group"] == g and cb["style"] in ("name", "callable", "method", "event")]
                if refs:
                    kw[g] = refs if len(refs) > 1 else refs[0]
            conds = [ref(c, cb) for c, cb in mine if cb["group"] == "cond" and cb["expected"]
                     and cb["style"] in ("name", "callable", "method", "property")]
            unless = [ref(c, cb) for c, cb in mine if cb["group"] == "cond" and not cb["expected"]
                      and cb["style"] in ("name", "callable", "method", "property")]
            if conds:
                kw["cond"] = conds if len(conds) > 1 else conds[0]
            if unless:
                kw["unless"] = unless if len(unless) > 1 else unless[0]
            if t.get("internal"):
                kw["internal"] = True
            if d["evstyle"] == "param":
                kw["event"] = " ".join(t["evs"]) if t.get("evjoin", True) else list(t["evs"])
            src, tgt = states[t["src"]], states[t["tgt"]]
            if t.get("decl", "to") == "to":
                tl = src.to(tgt, **kw)
            else:
                tl = tgt.from_(src, **kw)
            tls[j] = tl
            for c, cb in mine:
                if cb["style"] == "decorator":
                    g = cb["group"]
                    deco = {"cond": tl.cond if cb["expected"] else tl.unless}.get(g) or getattr(tl, g)
                    deco(funcs[c][0])
        if d["evstyle"] == "attr":
            for ev in d["evorder"]:
                acc = None
                for j, t in enumerate(d["trans"], start=1):
                    if ev in t["evs"]:
                        acc = tls[j] if acc is None else (acc | tls[j])
                attrs[ev] = acc
        for name, fn in by_prov.get("sm", {}).items():
            attrs[name] = fn
        if inst_attrs:
            import types as _t
            parent = self.base.cls if self.base is not None else StateMachine

            def __init__(self_, *a, _items=tuple(inst_attrs.items()), _parent=parent, **k):
                for name, fn in _items:
                    setattr(self_, name, _t.MethodType(fn, self_))
                _parent.__init__(self_, *a, **k)
            attrs["__init__"] = __init__
        attrs["__module__"] = "vmod"
        name = clsname
        kwargs = {"strict_states": True} if d.get("strict") else {}
        with warnings.catch_warnings(record=True) as w:
            warnings.simplefilter("always")
            bases = (self.base.cls,) if self.base is not None else (StateMachine,)
            self.cls = StateMachineMetaclass(name, bases, attrs, **kwargs)
        setattr(vmod, name, self.cls)
        self.warnings = [str(x.message) for x in w]

    def make_provider(self, prov, state_field="state", stored=None, kind="attr", slot=0):
        """A model or listener object carrying the methods of provider `prov`.
        Model kinds: attr (plain attribute), property (property-backed storage), classattr
        (class-level default, instance attribute only after the first write), falsy_len / falsy_bool
        (objects that are falsy)."""
        if kind == "bag":
            obj = Bag()
            for name, fn in getattr(self, "provider_functions", {}).get(prov, {}).items():
                setattr(obj, name, fn)          # plain functions as instance attributes: called without self
            obj.__dict__["_vslot"] = slot
            if prov == "model":
                setattr(obj, state_field, stored)
            return obj
        methods = dict(self.provider_methods.get(prov, {}))
        if prov == "model":
            if kind == "property":
                def _get(self_):
                    return self_.__dict__.get("_stored")

                def _set(self_, v):
                    self_.__dict__["_stored"] = v
                    self_.__dict__["_writes"] = self_.__dict__.get("_writes", 0) + 1
                methods[state_field] = property(_get, _set)
            elif kind == "classattr":
                methods[state_field] = None
            elif kind == "falsy_len":
                methods["__len__"] = lambda self_: 0
            elif kind == "falsy_bool":
                methods["__bool__"] = lambda self_: False
            elif kind == "reset_on_copy":
                # "a copy of a ticket is a new ticket": copies (deepcopy, pickle) come back without the state field
                def _getstate(self_, _f=state_field):
                    st = dict(self_.__dict__)
                    st[_f] = None
                    st["_vslot"] = 0          # (whose model the copy will be is not known here)
                    return st
                methods["__getstate__"] = _getstate
        if prov != "model" and kind in ("falsy_len", "falsy_bool"):
            # a listener that is falsy when it is attached (an empty journal / recorder, a container subclass)
            methods["__len__" if kind == "falsy_len" else "__bool__"] = (lambda self_: 0) if kind == "falsy_len" else (lambda self_: False)
        if prov != "model" and kind == "prop_handlers":
            # a forwarding provider: every callback name is a PROPERTY that hands out the handler
            import types as _t
            for nm, fn in list(methods.items()):
                if not isinstance(fn, property) and callable(fn):
                    methods[nm] = property(lambda self_, _f=fn: _t.MethodType(_f, self_))
        if kind == "equal":
            # value-like objects (frozen dataclasses, named tuples, ORM rows): every provider object of the scenario
            # compares and hashes equal to every other one; what an object IS stays a matter of identity
            methods["__eq__"] = lambda self_, other: "_vslot" in getattr(other, "__dict__", {})
            methods["__hash__"] = lambda self_: 7
        elif kind == "unhashable":
            # e.g. a plain @dataclass: defines __eq__, hence has no __hash__
            methods["__eq__"] = lambda self_, other: self_ is other
            methods["__hash__"] = None
        _class_counter[0] += 1
        pname = f"P_{prov}_{_class_counter[0]}"
        methods["__module__"] = "vmod"
        cls = type(pname, (), methods)
        setattr(vmod, pname, cls)
        obj = cls()
        obj.__dict__["_vslot"] = slot
        if kind == "proxy" and prov != "model":
            # a forwarding object (lazy / decorating proxy, fan-out listener): nothing of its own, everything through
            # __getattr__, and a __dir__ that says what it forwards
            obj = ForwardingProxy(obj)
            obj.__dict__["_vslot"] = slot
            return obj
        if prov == "model":
            if kind == "classattr":
                if stored is not None:
                    setattr(obj, state_field, stored)
            else:
                setattr(obj, state_field, stored)
        return obj


# ------------------------------------------------------------------------------------------
# Scenario runner
# ------------------------------------------------------------------------------------------
class Runner:
    def __init__(self, scn, rt=None):
        self.scn = scn
        self.rt = rt or Recorder(scn)
        lazy = {st["k"] for st in scn["steps"] if st["op"] == "class"}
        self.built = [None] * len(scn["classes"])
        for k, d in enumerate(scn["classes"], start=1):
            normalize_def(d)
            if k not in lazy:
                self.build_class(k)
        self.ni = scn.get("ni", 3)
        self.init_runtime()

    def init_runtime(self):
        """Per-run bookkeeping (also called by checks that assemble a Runner around classes they built themselves)."""
        self.rt.runner = self
        self.opts = {}          # slot -> options of the machine in it
        self.async_hint = {}    # slot -> the definition gives the machine coroutine callbacks
        self.constructing = 0
        self.sm = {}        # slot -> machine
        self.models = {}    # slot -> model
        self.cls_of = {}    # slot -> class index (1-based)
        self.listeners = {}  # slot -> {prov: obj}
        self.user_models = {}  # slot -> the model object the user supplied (identity check)
        self.inv_tokens = {}

    def build_class(self, k):
        d = self.scn["classes"][k - 1]
        base = self.built[d["base"] - 1] if d.get("base") else None
        self.built[k - 1] = Built(self.rt, d, base)

    def probe_lines(self):
        """Structure of every class defined so far, read from the class objects."""
        for k, b in enumerate(self.built, start=1):
            if b is None:
                continue
            cls = b.cls
            self.rt.emit({"e": "probe", "cls": k,
                          "states": [s.id for s in cls.states],
                          "events": [str(e) for e in cls.events],
                          "allowed": [{"s": s.id, "evs": [str(e) for e in s.transitions.unique_events],
                                       "tgts": sorted({t.target.id for t in s.transitions})}
                                      for s in cls.states]})

    def do_class(self, step):
        self.rt.emit({"e": "class", "cls": step["k"]})
        self.build_class(step["k"])

    # -- token <-> value ------------------------------------------------------------------
    def value_of(self, k, token):
        d = self.scn["classes"][k - 1]
        if token == "":
            return None
        for s in d["states"]:
            if s["id"] == token:
                return decode_value(s["value"]) if s.get("value", None) is not None else s["id"]
        if token in self.scn.get("values", {}):
            return decode_value(self.scn["values"][token])
        return token  # invalid value token, stored as is

    def token_of(self, k, value):
        d = self.scn["classes"][k - 1]
        if value is None:
            return ""
        if isinstance(value, enum.Enum) and type(value).__name__.startswith("VAlias"):
            value = value.value        # a member of a mixed-in enum IS its raw value (equal, same hash)
        for s in d["states"]:
            v = decode_value(s["value"]) if s.get("value", None) is not None else s["id"]
            if type(v) is type(value) and v == value:
                return s["id"]
        for tok, enc in self.scn.get("values", {}).items():
            v = decode_value(enc)
            if type(v) is type(value) and v == value:
                return tok
        return value if isinstance(value, str) else "!" + repr(value)

    def proj(self):
        out = []
        for j in range(1, self.ni + 1):
            sm = self.sm.get(j)
            if sm is None:
                # (a machine whose constructor is still running - its callbacks may already talk to other machines -
                # cannot be read yet)
                out.append({"cur": "", "state": "ctor" if j == getattr(self, "constructing", 0) else "none",
                            "allowed": [], "active": [], "events": [], "modelok": True, "tag": ""})
                continue
            k = self.cls_of[j]
            raw = getattr(sm.model, sm.state_field, None)
            cur = self.token_of(k, raw)
            try:
                state = sm.current_state.id
                allowed = [str(e) for e in sm.allowed_events]
                active = [s.id for s in sm.states if getattr(sm, s.id).is_active]
            except InvalidStateValue:
                state = "none" if raw is None else "invalid"
                allowed, active = [], []
            except Exception as e:  # noqa: BLE001 - reading the public projection must never fail
                state = "error:" + type(e).__name__
                allowed, active = [], []
            if sm.current_state_value is not raw and sm.current_state_value != raw:
                state = "mismatch"
            um = self.user_models.get(j)
            # user data on the machine object: one attribute with no namesake on the class, one that shadows a class-level
            # default; both hold the same tag
            plain, shadow = getattr(sm, "tag_plain", ""), getattr(sm, "tag_shadow", "")
            out.append({"cur": cur, "state": state, "allowed": allowed, "active": active,
                        "events": [str(e) for e in sm.events],
                        "modelok": True if um is None else (sm.model is um),
                        "tag": plain if plain == shadow else f"plain={plain!r} shadow={shadow!r}"})
        return out

    def exc_rec(self, k, e):
        if isinstance(e, (Boom, Cancelled)):
            return {"kind": "Boom", "ev": "", "st": "", "c": e.c}
        if isinstance(e, KeyError) and e.args and isinstance(e.args[0], Boom):
            return {"kind": "Boom", "ev": "", "st": "", "c": e.args[0].c}
        if isinstance(e, TransitionNotAllowed):
            return {"kind": "TNA", "ev": str(e.event), "st": e.state.id, "c": 0}
        if isinstance(e, InvalidStateValue):
            return {"kind": "InvalidStateValue", "ev": "", "st": self.token_of(k, e.value), "c": 0}
        if isinstance(e, InvalidDefinition):
            return {"kind": "InvalidDefinition", "ev": "", "st": "", "c": 0}
        return {"kind": "other:" + type(e).__name__, "ev": "", "st": str(e)[:80], "c": 0}

    def ret_line(self, i, outcome, cmp=True, kind="ret", extra=None, cls_slot=None):
        k = self.cls_of.get(i if cls_slot is None else cls_slot, 1)
        line = {"e": kind, "i": i, "cmp": cmp, "proj": self.proj()}
        line.update(extra or {})
        if outcome[0] == "ret":
            line.update(k="ret", res=self.rt.classify(outcome[1]),
                        exc={"kind": "", "ev": "", "st": "", "c": 0})
        else:
            line.update(k="exc", res={"k": "none", "items": []}, exc=self.exc_rec(k, outcome[1]))
        self.rt.emit(line)

    # -- steps ----------------------------------------------------------------------------
    def set_gv(self, step):
        gv = dict(step.get("gv") or {})
        gv["none"] = True
        self.rt.gv = gv
        step["gv"] = gv
        return gv

    def do_new(self, step):
        i, k = step["i"], step["cls"]
        b = self.built[k - 1]
        opt = step["opt"]
        alias = None
        gv = self.set_gv(step)
        provs = step["provs"]
        self.rt.cur_slot = i
        self.rt.chain = [i]
        self.rt.register(None, i)           # forget the machine that lived in this slot
        self.opts[i] = opt
        self.async_hint[i] = any(cb["coro"] and cb["prov"] in provs for cb in self.scn["classes"][k - 1]["cbs"])
        self.rt.budget = opt.get("budget", 0)
        state_field = step.get("state_field", "state")
        stored = step.get("stored", "")
        if i in self.models and step.get("reuse_model", False):
            model = self.models[i]
            stored = self.token_of(self.cls_of[i], getattr(model, state_field, None))
        elif "model" in provs or step.get("model_kind", "default") != "default" or stored != "":
            sval = self.value_of(k, stored)
            if step.get("stored_alias") and stored != "" and type(sval) in (int, str):
                # what the model stores is a member of a mixed-in enum (IntEnum, class X(str, Enum), Django choices) that
                # equals the state's raw value: a valid stored state, to be resumed UNTOUCHED
                sval = (enum.IntEnum if type(sval) is int else _StrEnum)("VAlias", {"member": sval}).member
                alias = sval
            model = b.make_provider("model", state_field, sval,
                                    kind=step.get("model_kind", "attr"), slot=i)
        else:
            model = None
            stored = ""
        self.user_models[i] = model
        step["stored"] = stored
        lkind = "bag" if step.get("model_kind") == "bag" else self.scn.get("listener_kind", "attr")
        lst = {p: b.make_provider(p, slot=i, kind=lkind) for p in provs if p not in ("sm", "model")}
        self.rt.emit({"e": "new", "i": i, "cls": k, "opt": opt, "stored": stored,
                      "provs": provs, "gv": gv})
        kw = {}
        if opt.get("start", "") != "":
            kw["start_value"] = self.value_of(k, opt["start"])
        if state_field != "state":
            kw["state_field"] = state_field
        self.cls_of[i] = k
        self.sm.pop(i, None)
        self.rt.mode = "ctor_pre"
        self.constructing = i
        try:
            if step.get("mixin"):
                from statemachine.mixins import MachineMixin
                try:   # MachineMixin runs Django's autodiscovery when Django is importable
                    import django
                    from django.conf import settings
                    if not settings.configured:
                        settings.configure(INSTALLED_APPS=[])
                        django.setup()
                except ImportError:
                    pass
                methods = dict(b.provider_methods.get("model", {}))
                methods.update(state_machine_name=f"vmod.{b.clsname}", state_field_name=state_field,
                               bind_events_as_methods=True)
                mcls = type("MixinModel", (MachineMixin,), methods)
                model = mcls()
                self.user_models[i] = model
                sm = model.statemachine
            else:
                sm = b.cls(model, rtc=opt["rtc"], allow_event_without_transition=opt["allow"],
                           listeners=list(lst.values()) or None, **kw)
        except Exception as e:  # noqa: BLE001
            self.rt.mode = "live"
            self.constructing = 0
            self.ret_line(i, ("exc", e))
            return
        self.rt.mode = "live"
        self.constructing = 0
        if step.get("bind_model"):
            sm.bind_events_to(sm.model)      # model.<event>() is one more way of sending the event (MachineMixin does this)
        if alias is not None and getattr(sm.model, state_field, None) is not alias:
            self.rt.notes.append({"kind": "stored_value_replaced", "i": i,
                                  "now": repr(getattr(sm.model, state_field, None))})
        self.sm[i] = sm
        self.rt.register(sm, i)
        self.models[i] = sm.model
        self.listeners[i] = lst
        self.ret_line(i, ("ret", None), cmp=False)

    def call_api(self, sm, step):
        api, ev = step["api"], step.get("ev", "")
        if api == "send":
            return sm.send(ev)
        if api == "send_from":
            # the event OBJECT of another machine of the same class (Event is a str): still a send to THIS machine
            other = self.sm.get(step.get("j", 0))
            objs = [e for e in (other.events if other is not None else []) if e == ev]
            return sm.send(objs[0] if objs else ev)
        if api == "event":
            return getattr(sm, ev)()
        if api == "events_item":
            return ([e for e in sm.events if e == ev] or [lambda: sm.send(ev)])[0]()
        if api == "allowed_item":
            try:
                items = [e for e in sm.allowed_events if e == ev]
            except InvalidStateValue:
                items = []
            return (items or [lambda: sm.send(ev)])[0]()
        if api == "bound":
            holder = type("Holder", (), {})()
            sm.bind_events_to(holder)
            return getattr(holder, ev)()
        if api == "mixin_bound":
            return getattr(sm.model, ev)()
        if api == "activate":
            return sm.activate_initial_state()
        raise ValueError(api)

    def resolve_name(self, sm, ev):
        """'@dir:<n>' -> the n-th attribute name of the machine that is not a declared event."""
        if not ev.startswith("@dir:"):
            return ev
        declared = {str(e) for e in sm.events}
        names = [n for n in sorted(dir(sm)) if n not in declared]
        return names[int(ev[5:]) % len(names)]

    def install_spy(self, sm, name):
        """If `name` is a plain method of the machine, shadow it on the instance with a recording
        wrapper for the duration of one call."""
        import inspect
        raw = inspect.getattr_static(sm, name, None)
        if raw is None or not inspect.isfunction(raw):
            return None
        calls = []
        orig = getattr(sm, name)

        def spy(*a, **kw):
            # only a call made by send() itself (the resolved "event" being invoked) counts; the
            # library's own internal use of its methods while processing does not
            fr = sys._getframe(1)
            if fr.f_code.co_name == "send" and fr.f_code.co_filename.endswith("statemachine.py"):
                calls.append(name)
            return orig(*a, **kw)
        try:
            sm.__dict__[name] = spy
        except Exception:  # noqa: BLE001
            return None
        return calls

    def do_call(self, step):
        i = step["i"]
        sm = self.sm[i]
        k = self.cls_of[i]
        api = step["api"]
        if "ev" in step:
            step = dict(step, ev=self.resolve_name(sm, step["ev"]))
        self.rt.cur_slot = i
        self.rt.chain = [i]
        if api == "copy" and step.get("reset"):
            api_logged = "copy_reset"
        else:
            api_logged = api
        line = {"e": "call", "i": i, "api": api_logged, "ev": step.get("ev", ""),
                "v": step.get("v", "") if not isinstance(step.get("v"), list) else "",
                "vs": step["v"] if isinstance(step.get("v"), list) else [step.get("v", "")], "j": step.get("j", 0)}
        if api in ("send", "send_from", "event", "events_item", "allowed_item", "bound", "activate", "mixin_bound") or api_logged == "copy_reset":
            line["gv"] = self.set_gv(step)
            self.rt.budget = step.get("budget", self.scn.get("budget", 0))
        self.rt.emit(line)
        try:
            if api in ("send", "send_from", "event", "events_item", "allowed_item", "bound", "activate", "mixin_bound"):
                spied = None
                if api == "send" and step.get("spy"):
                    spied = self.install_spy(sm, step["ev"])
                try:
                    self.rt.in_explicit_activation = api == "activate"
                    r = self.call_api(sm, step)
                finally:
                    self.rt.in_explicit_activation = False
                    if spied is not None:
                        sm.__dict__.pop(step["ev"], None)
                        if spied:
                            self.rt.notes.append({"kind": "attr_invoked", "name": step["ev"]})
                if asyncio.iscoroutine(r):
                    raise RuntimeError("coroutine returned to the synchronous driver")
            elif api == "write_setter":
                sm.current_state_value = self.value_of(k, step["v"])
                r = None
            elif api == "decorate_bound":
                # the declaration API used on an INSTANCE's event handle (sm.go.cond(fn)): a declaration belongs in a class
                # body - this is refused, and in any case it is not a way of changing the class for everybody else
                getattr(sm, step["ev"]).cond(_never)
                r = None
            elif api == "write_state":
                # sm.current_state = <State object>: one of the machine's own states, or - for an unmapped token - a State
                # object that does not belong to the machine (another class's, a free-standing one) carrying that value
                own = [s_ for s_ in sm.states if s_.id == step["v"]]
                sm.current_state = own[0] if own else State(value=self.value_of(k, step["v"]))
                r = None
            elif api == "write_model":
                setattr(sm.model, sm.state_field, self.value_of(k, step["v"]))
                r = None
            elif api == "set_attr":
                sm.tag_plain = step["v"]
                sm.tag_shadow = step["v"]      # the class defines tag_shadow = "" (definitions with shadow_attr)
                r = None
            elif api == "add_listener":
                objs = []
                for p in (step["v"] if isinstance(step["v"], list) else [step["v"]]):
                    obj = self.listeners[i].get(p) or self.built[k - 1].make_provider(
                        p, slot=i, kind="bag" if self.scn.get("bag_providers") else self.scn.get("listener_kind", "attr"))
                    self.listeners[i][p] = obj
                    objs.append(obj)
                self.rt.mode = "registering"
                try:
                    sm.add_listener(*objs)      # one call, possibly several listeners
                finally:
                    self.rt.mode = "live"
                r = None
            elif api == "copy":
                j = step["j"]
                self.rt.mode = "registering"
                if step.get("reset"):
                    # the model's copy has no state: the clone is a machine that starts (callbacks run inside the copy call)
                    self.rt.mode = "live"
                    self.rt.cur_slot = j
                    self.rt.chain = [j]
                try:
                    if step.get("how", "deepcopy") == "deepcopy":
                        clone = copy.deepcopy(sm)
                    else:
                        clone = pickle.loads(pickle.dumps(sm))
                finally:
                    self.rt.mode = "live"
                self.adopt_clone(i, j, sm, clone, step.get("model_shared_ok"))
                self.ret_line(j, ("ret", None), cmp=False)
                return
            else:
                raise ValueError(api)
        except (Exception, Cancelled) as e:  # noqa: BLE001
            # (a copy that starts anew and fails while starting: the failure belongs to the would-be clone)
            self.ret_line(step["j"] if api == "copy" and step.get("reset") else i, ("exc", e))
            return
        self.ret_line(i, ("ret", r), cmp=api != "activate")

    def adopt_clone(self, i, j, sm, clone, shared_ok=None):
        """Bookkeeping for a copy of the machine in slot i that now lives in slot j."""
        k = self.cls_of[i]
        if clone.model is sm.model and shared_ok is None:
            self.rt.notes.append({"kind": "clone_shares_model", "i": i, "j": j})
        try:   # tag the copied provider objects with the clone's slot
            for obj in [clone.model, *getattr(clone, "_listeners", {})]:
                if hasattr(obj, "__dict__") and "_vslot" in obj.__dict__:
                    obj.__dict__["_vslot"] = j
        except Exception:  # noqa: BLE001
            pass
        self.sm[j] = clone
        self.rt.register(clone, j)
        self.opts[j] = self.opts.get(i, {"rtc": True})
        self.async_hint[j] = self.async_hint.get(i, False)
        self.user_models[j] = None
        self.clone_of = getattr(self, "clone_of", {})
        self.clone_of[j] = i
        self.models[j] = clone.model
        self.cls_of[j] = k
        self.listeners[j] = {}

    async def do_call_async(self, step):
        """Same as do_call for the in-loop driver: awaits what the facade returns."""
        i = step["i"]
        sm = self.sm[i]
        api = step["api"]
        if api not in ("send", "send_from", "event", "events_item", "allowed_item", "bound", "mixin_bound", "activate"):
            return self.do_call(step)
        self.rt.cur_slot = i
        self.rt.chain = [i]
        line = {"e": "call", "i": i, "api": api, "ev": step.get("ev", ""), "v": "", "j": 0,
                "gv": self.set_gv(step)}
        self.rt.budget = step.get("budget", self.scn.get("budget", 0))
        self.rt.emit(line)
        try:
            self.rt.in_explicit_activation = api == "activate"
            r = self.call_api(sm, step)
            if asyncio.iscoroutine(r) or asyncio.isfuture(r):
                r = await r
        except (Exception, Cancelled) as e:  # noqa: BLE001
            self.rt.in_explicit_activation = False
            self.ret_line(i, ("exc", e))
            return
        self.rt.in_explicit_activation = False
        self.ret_line(i, ("ret", r), cmp=api != "activate")

    def run_sync(self):
        probes = self.scn.get("probes", False)
        for step in self.scn["steps"]:
            if step["op"] == "class":
                self.do_class(step)
            elif step["op"] == "new":
                self.do_new(step)
            else:
                if step["i"] not in self.sm:
                    continue
                self.do_call(step)
            if probes:
                self.probe_lines()

    def run_threads_in_turn(self):
        """Every step on its own loop-less thread, one after the other."""
        for step in self.scn["steps"]:
            err = []

            def one(step=step):
                try:
                    if step["op"] == "new":
                        self.do_new(step)
                    elif step["i"] in self.sm:
                        self.do_call(step)
                except BaseException as e:  # noqa: BLE001
                    err.append(e)

            th = threading.Thread(target=one)
            th.start()
            th.join(self.scn.get("timeout", 20))
            if th.is_alive():
                raise TimeoutError("step did not terminate")
            if err:
                raise err[0]

    async def run_inloop(self):
        for step in self.scn["steps"]:
            if step["op"] == "class":
                self.do_class(step)
            elif step["op"] == "new":
                self.do_new(step)
            else:
                if step["i"] not in self.sm:
                    continue
                await self.do_call_async(step)

    def run(self):
        """Run in a fresh thread (fresh per-thread cached loop for the sync facade)."""
        box = {}

        def target():
            try:
                with warnings.catch_warnings(record=True) as w:
                    warnings.simplefilter("always")
                    drv = self.scn.get("driver", "sync")
                    if drv == "inloop":
                        asyncio.run(self.run_inloop())
                    elif drv == "threads":
                        self.run_threads_in_turn()
                    else:
                        self.run_sync()
                    # orphan detection: coroutine callbacks still pending when the caller has
                    # its answer were never awaited to completion
                    orphans = 0
                    for loop in self.rt.loops:
                        if not loop.is_closed():
                            orphans += len([t for t in asyncio.all_tasks(loop) if not t.done()])
                            loop.close()
                    box["orphans"] = orphans
                box["warnings"] = [f"{x.category.__name__}: {x.message}" for x in w]
            except BaseException as e:  # noqa: BLE001
                box["error"] = e

        th = threading.Thread(target=target)
        th.start()
        th.join(self.scn.get("timeout", 20))
        if th.is_alive():
            raise TimeoutError("scenario did not terminate")
        if "error" in box:
            raise box["error"]
        return {"lines": self.rt.lines, "warnings": box.get("warnings", []),
                "orphans": box.get("orphans", 0), "notes": self.rt.notes}


def spec_classes(scn):
    """Class definitions reduced to what the specification reads."""
    out = []
    for d in scn["classes"]:
        out.append({
            "states": [{"id": s["id"], "initial": s["initial"], "final": s["final"]} for s in d["states"]],
            "trans": [{"src": t["src"], "tgt": t["tgt"], "evs": list(t["evs"]),
                       "internal": bool(t.get("internal", False))} for t in d["trans"]],
            "events": list(d["events"]),
            "initial": d["initial"],
            "cbs": [{"okind": cb["okind"], "owner": cb["owner"], "tix": cb["tix"], "group": cb["group"],
                     "prov": cb["prov"], "coro": cb["coro"], "gname": cb["gname"],
                     "expected": cb["expected"], "ret": cb["ret"], "evcb": cb.get("evcb", "")} for cb in d["cbs"]],
        })
    return out


def run_scenario(scn):
    r = Runner(scn)
    res = r.run()
    res["classes"] = spec_classes(scn)
    return res
