"""Where the implementation under test lives.  The registered commands always use /repo's working tree; VERIF_REPO is
only for trying a changed copy (tools/mutant.sh, tools/seeded.sh) without touching /repo - evidence then goes to a
scratch directory."""
import os

VERIF = os.path.dirname(os.path.dirname(os.path.abspath(__file__)))   # /verif, or a copy of it (vp run snapshot)
REPO = os.environ.get("VERIF_REPO", "/repo")
ALT = REPO != "/repo"
