"""Run TLC (model checking, simulation, batched trace validation) and parse its output."""
import json
import os
import re
import shutil
import subprocess
import tempfile
import time
from concurrent.futures import ThreadPoolExecutor

import paths  # noqa: E402

SPEC_DIR = os.path.join(paths.VERIF, "spec")
JAR = "/opt/veriftools/tla/tla2tools.jar:/opt/veriftools/tla/CommunityModules-deps.jar"
WORK = os.environ.get("VERIF_WORK", os.path.join(paths.VERIF, "work"))


class MachineryError(Exception):
    """TLC crashed / output unparsable: exit 2, never a violation."""


def workdir(prefix):
    os.makedirs(WORK, exist_ok=True)
    return tempfile.mkdtemp(prefix=prefix + "_", dir=WORK)


def tlc_cmd(module, cfg, metadir, workers=1, extra=(), jvm=()):
    if not any(a.startswith("-Xmx") for a in jvm):
        # bounded heaps: many single-worker JVMs run side by side (the default, a quarter of the RAM each, got one killed)
        jvm = (*jvm, "-Xmx3g" if workers == 1 else "-Xmx20g")
    # (TLC leaves a tlc-* directory in java.io.tmpdir per run: keep them inside the run's own scratch directory)
    return ["java", "-XX:+UseParallelGC", "-Xss16m", f"-Djava.io.tmpdir={metadir}", *jvm, "-cp", JAR, "tlc2.TLC",
            "-workers", str(workers), "-metadir", metadir, "-noGenerateSpecTE",
            "-config", cfg, *extra, module]


def run_tlc(module, cfg, env=None, workers=1, extra=(), timeout=900, jvm=(), cwd=SPEC_DIR):
    meta = workdir("meta")
    e = dict(os.environ)
    e.update(env or {})
    t0 = time.time()
    try:
        p = subprocess.run(tlc_cmd(module, cfg, meta, workers, extra, jvm), cwd=cwd, env=e,
                           capture_output=True, text=True, timeout=timeout)
    except subprocess.TimeoutExpired as ex:
        raise MachineryError(f"TLC timeout after {timeout}s on {module}") from ex
    finally:
        shutil.rmtree(meta, ignore_errors=True)
    return p.returncode, p.stdout + p.stderr, time.time() - t0


STATS_RE = re.compile(r"(\d+) states generated, (\d+) distinct states found")
VERDICT_RE = re.compile(r'<<"(ACCEPT|REJECT)", (\d+), (\d+), (\d+)(?:, (0|".*"))?>>')
COV_RE = re.compile(r"^<(\w+) line (\d+), col \d+ to line \d+, col \d+ of module (\w+)(?: \(\d+ \d+ \d+ \d+\))?>: (\d+):(\d+)", re.M)


def parse_stats(out):
    m = STATS_RE.findall(out)
    if not m:
        return 0, 0
    g, d = m[-1]
    return int(g), int(d)


def parse_coverage(out):
    """Per-action (distinct, total) counts from -coverage output; keeps the last report."""
    cov = {}
    for name, _line, mod, distinct, total in COV_RE.findall(out):
        cov[f"{mod}.{name}"] = (int(distinct), int(total))
    return cov


CHUNK = 600

INV_NAMES = {0: "", 1: "InvRTCNoNesting", 2: "InvQuiescent", 3: "InvExactlyOneActive",
             4: "InvOneAtATime", 5: "InvViewOK", 6: "InvPendingWF"}


def validate_batch(batch, module="Trace_System.tla", cfg="Trace_System.cfg", shards=16,
                   timeout=900, jvm=(), inv_names=None, payload=None):
    """batch: list of {"classes": [...], "lines": [...]}.  Returns (verdicts, stats) where
    verdicts[k] = {"ok": bool, "matched": n_lines_consumed, "inv": name} aligned with batch."""
    n = len(batch)
    if n == 0:
        return [], {"states": 0, "distinct": 0, "wall_s": 0.0}
    shards = max(1, min(shards, n))
    # at most CHUNK traces per JVM (memory stays flat however large the batch); `shards` JVMs at a time
    nparts = max(shards, -(-n // CHUNK))
    parts = [list(range(s, n, nparts)) for s in range(nparts)]
    wd = workdir("batch")
    results = [None] * n
    tot = {"states": 0, "distinct": 0, "wall_s": 0.0}

    def one(si):
        idxs = parts[si]
        path = os.path.join(wd, f"batch_{si}.json")
        with open(path, "w") as f:
            if payload is None:
                json.dump([{"classes": batch[k]["classes"], "lines": batch[k]["lines"]} for k in idxs], f)
            else:
                json.dump([payload(batch[k]) for k in idxs], f)
        rc, out, wall = run_tlc(module, cfg, env={"BATCH_FILE": path}, workers=1, timeout=timeout, jvm=jvm)
        vs = VERDICT_RE.findall(out)
        if len(vs) != len(idxs):
            log = os.path.join(wd, f"tlc_{si}.log")
            with open(log, "w") as f:
                f.write(out)
            raise MachineryError(f"TLC produced {len(vs)} verdicts for {len(idxs)} traces (rc={rc}); log {log}")
        g, d = parse_stats(out)
        return si, vs, g, d, wall

    t0 = time.time()
    try:
        with ThreadPoolExecutor(max_workers=shards) as ex:
            for si, vs, g, d, wall in ex.map(one, range(nparts)):
                tot["states"] += g
                tot["distinct"] += d
                for verdict, t, reached, inv, summ in vs:
                    k = parts[si][int(t) - 1]
                    nlines = len(batch[k]["lines"])
                    spec_state = None
                    if summ and summ != "0" and verdict == "REJECT":
                        try:
                            spec_state = json.loads(json.loads(summ))
                        except ValueError:
                            spec_state = None
                    results[k] = {"ok": verdict == "ACCEPT", "matched": max(0, int(reached) - 1),
                                  "lines": nlines, "inv": (inv_names or INV_NAMES).get(int(inv), str(inv)),
                                  "spec_state": spec_state}
    except MachineryError:
        raise
    else:
        shutil.rmtree(wd, ignore_errors=True)
    tot["wall_s"] = time.time() - t0
    return results, tot


CASE_RE = re.compile(r'^<<"CASE", "(.*)">>$', re.M)


def eval_batch(module, cases, shards=8, timeout=900, cfg="Eval.cfg"):
    """Evaluate a pure-function TLA+ module on a batch of harness-enumerated cases.
    The module prints one <<"CASE", ToJson(result)>> line per case (result.t = 1-based index)."""
    n = len(cases)
    if n == 0:
        return [], {"wall_s": 0.0}
    shards = max(1, min(shards, (n + 199) // 200))
    parts = [list(range(s, n, shards)) for s in range(shards)]
    wd = workdir("eval")
    out_all = [None] * n
    t0 = time.time()

    def one(si):
        idxs = parts[si]
        path = os.path.join(wd, f"cases_{si}.json")
        with open(path, "w") as f:
            json.dump([cases[k] for k in idxs], f)
        rc, out, wall = run_tlc(module, cfg, env={"BATCH_FILE": path}, workers=1, timeout=timeout)
        res = []
        for m in CASE_RE.findall(out):
            res.append(json.loads(json.loads('"' + m + '"')))
        if len(res) != len(idxs) or rc != 0:
            log = os.path.join(wd, f"eval_{si}.log")
            with open(log, "w") as f:
                f.write(out)
            raise MachineryError(f"TLC evaluated {len(res)} of {len(idxs)} cases (rc={rc}); log {log}")
        return si, res

    with ThreadPoolExecutor(max_workers=shards) as ex:
        for si, res in ex.map(one, range(shards)):
            for r in res:
                out_all[parts[si][r["t"] - 1]] = r
    shutil.rmtree(wd, ignore_errors=True)
    return out_all, {"wall_s": time.time() - t0}
