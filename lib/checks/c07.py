"""C07 - callbacks receive exactly the parameters they declare.

Model: Bind.tla - Layer (reserved names stripped from user keywords, built-ins of the event in progress added) and
Bind (slot-aligned positional phase, by-name phase, var-positional / var-keyword leftovers, `missing` only when
nothing supplies a required parameter); TLC evaluates Bind for every (signature, call shape) the harness enumerates
and checks the sanity theorem MissingOnlyWhenUnsupplied on each.
Binding: every case becomes a real callable generated with exec (function / method on machine, model or listener
/ functools.partial / coroutine), attached in a callback group of a real machine and fired through sm.send(*args,
**kwargs); the callable records its locals, which must equal the spec's binding parameter by parameter (built-ins
are recognised by identity/type: the machine, its model, the triggering event, source/target/state objects, the
Transition and EventData of the event in progress).  All callables share one qualified name and class name on
purpose: the binding must depend on the callable's own signature only (signature-cache independence).
"""
import functools
import itertools
import random
import sys

import framework
import tlc

import paths  # noqa: E402
sys.path.insert(0, paths.REPO)

USER_NAMES = ["a", "b", "k", "x"]
BUILTINS = ["event", "source", "target", "state", "model", "machine", "transition", "event_data"]
INTERNAL_NAMES = ["key", "args", "kwargs", "cls", "spec", "specs", "registry", "trigger_data", "callback", "condition", "value"]


def legal_signatures(max_params):
    """Every legal ordering of kinds with default flags (names are assigned later)."""
    out = []
    for npo, npk, vp, nko, vk in itertools.product(range(3), range(3), range(2), range(3), range(2)):
        n = npo + npk + vp + nko + vk
        if n == 0 or n > max_params:
            continue
        npos = npo + npk
        for ndef in range(npos + 1):          # defaults are a suffix of the positional parameters
            for kodefs in itertools.product([False, True], repeat=nko):
                kinds = ["PO"] * npo + ["PK"] * npk
                defs = [i >= npos - ndef for i in range(npos)]
                if vp:
                    kinds.append("VP")
                    defs.append(False)
                kinds += ["KO"] * nko
                defs += list(kodefs)
                if vk:
                    kinds.append("VK")
                    defs.append(False)
                out.append(list(zip(kinds, defs)))
    return out


def name_sig(rng, shape):
    pool = USER_NAMES + rng.sample(BUILTINS, 3)
    rng.shuffle(pool)
    names = iter(pool)
    sig = []
    for kind, hasdef in shape:
        if kind == "VP":
            nm = "args"
        elif kind == "VK":
            nm = "kwargs"
        else:
            nm = next(names)
        sig.append({"name": nm, "kind": kind, "hasdef": hasdef})
    return sig


def source_of(sig, coro=False, method=True, extra_first=None):
    parts = []
    seen_po = any(p["kind"] == "PO" for p in sig)
    star_done = False
    first = (["self"] if method else []) + ([extra_first] if extra_first else [])
    for i, p in enumerate(sig):
        k = p["kind"]
        if k in ("PO", "PK"):
            parts.append(p["name"] + (f"='d:{p['name']}'" if p["hasdef"] else ""))
            nxt = sig[i + 1]["kind"] if i + 1 < len(sig) else None
            if k == "PO" and nxt != "PO":
                parts.append("/")
        elif k == "VP":
            parts.append("*args")
            star_done = True
        elif k == "KO":
            if not star_done:
                parts.append("*")
                star_done = True
            parts.append(p["name"] + (f"='d:{p['name']}'" if p["hasdef"] else ""))
        else:
            parts.append("**kwargs")
    if seen_po and first:
        # `self` (and a partial's bound parameter) are positional too: keep them before the `/`
        pass
    params = ", ".join(first + parts)
    head = ("async def" if coro else "def") + f" cb({params}):"
    return head + "\n    _loc = dict(locals())\n    _loc.pop('self', None)\n    REC.append(_loc)\n    return RET\n"


def make_callable(sig, how, rec, ret):
    """how: sm_method | model_method | listener_method | function | partial | coro_method | wrapped (a method behind a
    functools.wraps decorator whose wrapper takes *args, **kwargs: what it declares is what the wrapped function declares)"""
    coro = how == "coro_method"
    method = how in ("sm_method", "model_method", "listener_method", "coro_method", "wrapped")
    extra = "_bound" if how == "partial" else None
    ns = {"REC": rec, "RET": ret}
    exec(source_of(sig, coro=coro, method=method, extra_first=extra), ns)   # noqa: S102 - generated text only
    fn = ns["cb"]
    fn.__qualname__ = "BindM.cb"          # same qualified name for every case, on purpose
    if how == "wrapped":
        @functools.wraps(fn)
        def traced(*a, **k):
            return fn(*a, **k)
        return traced
    if how == "partial":
        p = functools.partial(fn, "BOUND")
        p.__name__ = "cb"      # a callback needs a name (CallbackSpec reads func.__name__)
        return p
    return fn


def build_forwarding(sig, how, group, rec):
    """s0 -go-> s1 -nxt-> s2 where `nxt` is used as a callback (after=) of `go`: the event `nxt` is sent from inside
    `go` with go's positional and keyword arguments; the callable under test is attached to nxt's transition."""
    from statemachine import State, StateMachine
    from statemachine.factory import StateMachineMetaclass
    fn = make_callable(sig, how, rec, True if group == "cond" else "RET")
    s0, s1, s2 = State(initial=True), State(), State()
    attrs = {"s0": s0, "s1": s1, "s2": s2, "__module__": "vmod_c07"}
    model_attrs, lis_attrs = {"state": None}, {}
    ref = "cb"
    if how in ("sm_method", "coro_method", "wrapped"):
        attrs["cb"] = fn
    elif how == "model_method":
        model_attrs["cb"] = fn
    elif how == "listener_method":
        lis_attrs["cb"] = fn
    else:
        ref = fn
    attrs["go"] = s0.to(s1, after="nxt")
    attrs["nxt"] = s1.to(s2, **{group: ref})
    attrs["back"] = s2.to(s0)
    cls = StateMachineMetaclass("BindM", (StateMachine,), attrs)
    model = type("BModel", (), model_attrs)()
    listener = type("BListener", (), lis_attrs)()
    return cls, model, listener


def build(sig, how, group, rec):
    from statemachine import State, StateMachine
    from statemachine.factory import StateMachineMetaclass
    fn = make_callable(sig, how, rec, True if group == "cond" else "RET")
    s0 = State(initial=True)
    s1 = State()
    attrs = {"s0": s0, "s1": s1, "__module__": "vmod_c07"}
    model_attrs, lis_attrs = {"state": None}, {}
    ref = "cb"
    if how in ("sm_method", "coro_method", "wrapped"):
        attrs["cb"] = fn
    elif how == "model_method":
        model_attrs["cb"] = fn
    elif how == "listener_method":
        lis_attrs["cb"] = fn
    else:
        ref = fn
    kw = {}
    if group == "enter":
        s1 = State(enter=ref)
        attrs["s1"] = s1
    else:
        kw[group] = ref
    attrs["go"] = s0.to(s1, **kw)
    attrs["back"] = s1.to(s0)
    cls = StateMachineMetaclass("BindM", (StateMachine,), attrs)
    model = type("BModel", (), model_attrs)()
    listener = type("BListener", (), lis_attrs)()
    return cls, model, listener


class Tok(str):
    """A value sent with the event: recognisable by identity (what arrives must BE what was sent, not something equal)."""


class Twin(Tok):
    """... that moreover compares equal to the default of the parameter of its name ('d:<name>'), as True does to 1 or
    Decimal('0') to 0.0: equality with a default says nothing about whether a value was passed."""

    def __eq__(self, other):
        return str.__eq__(self, other) is True or (isinstance(other, str) and str.__eq__(other, "d:" + self[2:]) is True)

    def __ne__(self, other):
        return not self.__eq__(other)

    __hash__ = str.__hash__


def matches(token, value, sm, group, ctx=("go", "s0", "s1"), sent=None):
    """Does the received value correspond to the spec's token?  ctx = (event, source id, target id) of the event the
    callback belongs to."""
    from statemachine.event_data import EventData
    from statemachine.state import State
    from statemachine.transition import Transition
    if not token.startswith("B:"):
        if sent is not None and token in sent:
            return value is sent[token]
        return type(value) is str and value == token
    name = token[2:]
    if name == "machine":
        return value is sm or getattr(value, "model", None) is sm.model
    if name == "model":
        return value is sm.model
    ev, src, tgt = ctx
    if name == "event":
        return str(value) == ev
    if name == "transition":
        return isinstance(value, Transition) and value.source.id == src and value.target.id == tgt
    if name == "event_data":
        return isinstance(value, EventData) and str(value.event) == ev
    if name in ("source", "target", "state"):
        want = {"source": src, "target": tgt, "state": tgt if group in ("enter", "after") else src}[name]
        return isinstance(value, State) and value.id == want
    return False


def run(pid, tier, seed, replay):
    chk = framework.Check(pid, tier, seed)
    quick = tier == "quick"
    rng = random.Random(7000 + seed)
    if replay:
        import json
        print(json.dumps(json.load(open(replay))["replay"], indent=1)[:3000])
        return 1
    import warnings
    warnings.simplefilter("ignore", RuntimeWarning)
    shapes = legal_signatures(4 if quick else 5)
    cases = []
    for shape in shapes:
        for _ in range(3):
            sig = name_sig(rng, shape)
            named = [p["name"] for p in sig if p["kind"] in ("PK", "KO", "PO")]
            for npos in range(0, 4):
                for _ in range(3 if quick else 5):
                    # undeclared names, incl. ones that are parameter names inside the library itself
                    pool = named + ["zz"] + rng.sample(BUILTINS, 2) + rng.sample(INTERNAL_NAMES, 1)
                    user_names = [n for n in pool if rng.random() < 0.4]
                    user = [{"name": n, "val": f"u:{n}"} for n in dict.fromkeys(user_names)]
                    cases.append({"sig": sig, "pos": [f"p{j + 1}" for j in range(npos)], "user": user,
                                  "builtins": [{"name": b, "val": f"B:{b}"} for b in BUILTINS]})
    if quick and len(cases) > 16000:
        cases = rng.sample(cases, 16000)
    res, st = tlc.eval_batch("Eval_Bind.tla", cases, shards=14)
    insane = [r for r in res if not r["sane"]]
    if insane:
        raise tlc.MachineryError(f"Bind.tla violates its own sanity theorem on case {insane[0]['t']}")
    chk.coverage["tlc_cases_evaluated"] = len(cases)
    hows = ["sm_method", "model_method", "listener_method", "function", "partial", "coro_method", "wrapped"]
    groups = ["on", "before", "after", "cond", "enter", "validators"]
    nrun = nunspec = ntypeerr = nforw = 0
    distinct = set()
    for c, r in zip(cases, res):
        if r["unspec"]:
            nunspec += 1
            continue
        how = rng.choice(hows)
        group = rng.choice(groups)
        if how == "coro_method" and group == "enter":
            group = "on"
        forwarded = rng.random() < 0.2 and how != "coro_method"
        if forwarded:
            group = rng.choice(["on", "before", "after", "cond", "validators"])
        ctx = ("nxt", "s1", "s2") if forwarded else ("go", "s0", "s1")
        rec = []
        key = (tuple((p["name"], p["kind"], p["hasdef"]) for p in c["sig"]), len(c["pos"]),
               tuple(u["name"] for u in c["user"]))
        distinct.add(key)
        feats = {"how": how, "group": group, "forwarded_from_parent_event": forwarded,
                 "user_kwarg_named_key": any(u["name"] == "key" for u in c["user"]),
                 "ko_after_surplus_positional": any(p["kind"] == "KO" for p in c["sig"]) and len(c["pos"]) >
                 sum(1 for p in c["sig"] if p["kind"] in ("PO", "PK")) and not any(p["kind"] == "VP" for p in c["sig"])}
        replay_info = {"signature": c["sig"], "pos": c["pos"], "user_kwargs": c["user"], "how": how, "group": group,
                       "expected": r}
        try:
            cls, model, listener = (build_forwarding if forwarded else build)(c["sig"], how, group, rec)
            sm = cls(model, listeners=[listener])
        except Exception as e:  # noqa: BLE001
            chk.report(dict(feats, kind="construction_failed", error=type(e).__name__),
                       f"machine with callback {c['sig']} could not be built: {type(e).__name__}: {str(e)[:100]}", replay_info)
            continue
        nrun += 1
        sent = {}
        for tok in c["pos"]:
            sent[tok] = Tok(tok)
        for u in c["user"]:
            sent[u["val"]] = (Twin if rng.random() < 0.4 else Tok)(u["val"])
        # values a library is tempted to read as "absent": None and the other falsy singletons, passed explicitly
        # (compared by identity like every sent value; two equal singletons in one call are indistinguishable, nothing more)
        singletons = 0
        for tok in list(sent):
            if rng.random() < 0.12:
                sent[tok] = rng.choice([None, None, False, 0, "", (), 0.0])
                singletons += 1
        feats["falsy_singleton_sent"] = singletons > 0
        feats["equal_to_default_value_sent"] = any(
            type(sent[u["val"]]) is Twin and any(p["name"] == u["name"] and p["hasdef"] for p in c["sig"]) for u in c["user"])
        try:
            sm.go(*[sent[t] for t in c["pos"]], **{u["name"]: sent[u["val"]] for u in c["user"]})
            outcome = "ok"
        except TypeError as e:
            outcome = "TypeError"
            err = str(e)
        except Exception as e:  # noqa: BLE001
            outcome = "other:" + type(e).__name__
            err = str(e)
        nforw += forwarded
        if r["missing"]:
            ntypeerr += 1
            if outcome != "TypeError":
                chk.report(dict(feats, kind="missing_parameter_not_reported", outcome=outcome),
                           f"callback {c['sig']} lacks a value for a required parameter but the event ended with {outcome}", replay_info)
            continue
        if outcome != "ok":
            chk.report(dict(feats, kind="exception_from_binding", outcome=outcome.split(":")[0]),
                       f"callback {c['sig']} called with pos={c['pos']} user={[u['name'] for u in c['user']]}: {outcome}: {err[:120]}",
                       replay_info)
            continue
        if len(rec) != 1:
            chk.report(dict(feats, kind="call_count", n=len(rec)), f"callback ran {len(rec)} times", replay_info)
            continue
        got = rec[0]
        bad = []
        for b in r["bound"]:
            if b["how"] in ("pos", "kw"):
                if b["name"] not in got or not matches(b["val"], got[b["name"]], sm, group, ctx, sent):
                    bad.append((b["name"], b["val"], repr(got.get(b["name"], "<absent>"))[:40]))
            elif b["how"] == "default":
                if got.get(b["name"]) != f"d:{b['name']}":
                    bad.append((b["name"], "default", repr(got.get(b["name"], "<absent>"))[:40]))
        if any(p["kind"] == "VP" for p in c["sig"]):
            ga = list(got.get("args", ()))
            if len(ga) != len(r["varpos"]) or not all(matches(t, v, sm, group, ctx, sent) for t, v in zip(r["varpos"], ga)):
                bad.append(("*args", r["varpos"], repr(got.get("args"))[:60]))
        if any(p["kind"] == "VK" for p in c["sig"]):
            kw = got.get("kwargs", {})
            want = {e["name"]: e["val"] for e in r["varkw"]}
            if set(kw) != set(want) or not all(matches(want[n], kw[n], sm, group, ctx, sent) for n in want):
                bad.append(("**kwargs", sorted(want), sorted(kw)))
        if bad:
            chk.report(dict(feats, kind="binding_mismatch"),
                       f"callback {[(p['name'], p['kind'], p['hasdef']) for p in c['sig']]} ({how}, {group}) called with pos={c['pos']} "
                       f"user={[u['name'] for u in c['user']]}: (parameter, specification, received) = {bad}", replay_info)
        elif len(chk.samples) < 3:
            chk.add_sample({"signature": [(p["name"], p["kind"], p["hasdef"]) for p in c["sig"]], "how": how, "group": group,
                            "pos": c["pos"], "user_kwargs": [u["name"] for u in c["user"]],
                            "received": {k: (v if isinstance(v, (str, tuple)) else type(v).__name__) for k, v in got.items()
                                         if k != "kwargs"}})
    chk.coverage.update({
        "evaluations": nrun, "distinct_nontrivial": len(distinct), "unspecified_corner_skipped": nunspec,
        "required_parameter_missing_cases": ntypeerr, "forwarded_from_parent_event_cases": nforw, "exhaustive": True, "signature_shapes": len(shapes),
        "rule": ("every legal signature shape of <=4 (quick) / <=5 (thorough) parameters over positional-only, "
                 "positional-or-keyword, *args, keyword-only, **kwargs with every default pattern; names drawn from a,b,k,x and the "
                 "built-in names; call shapes: 0-3 positional arguments x random subsets of user keywords incl. the parameters' own names, "
                 "an undeclared name and attempted overrides of built-ins; callable kinds: method on machine/model/listener, function, "
                 "partial, coroutine; groups on/before/after/cond/enter/validators; sent values compared by identity, 12% of them None or "
                 "another falsy singleton; distinct = (signature, #positionals, keyword names)")})
    chk.assumptions += ["the corner `positional-only parameter without positional argument but same-named keyword` is left unspecified "
                        "and skipped (Python cannot pass it by name)"]
    return chk.finish()
