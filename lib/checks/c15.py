"""C15 - every declaration style of the same machine yields the same machine.

Model: Decl.tla - the declaration DSL as data (state / to / from / any / or / event statements) and Normalize, the
machine a class body denotes (states in order, per state the sequence of transitions with their event lists,
internal flags and guards, the set of events).  For every abstract machine and every rendering TLC checks
Normalize(rendering) = machine.
Binding: each rendering is also executed through the real DSL and metaclass; the structure read back from the class
object (states, events, per state the transitions with targets, events, internal flag, guard labels) must equal
Normalize(rendering), and event histories x guard valuations run on every rendering must be behaviours of
System.tla instantiated with the ONE abstract machine (Trace_System).
Renderings: a.to(b) / b.from_(a); multi-target and multi-source calls; to.itself(); every association of `|`;
event= as space-separated string, list or Event; events as class attributes, Event(...) or decorated methods;
from_.any() versus explicit transitions from every non-final state (the any() event declared after all states);
States.from_enum / States({...}) versus State attributes; a base class plus a subclass that adds the rest.
"""
import enum
import random
import sys

import enginecheck as ec
import framework
import gen
import harness
import tlc

import paths  # noqa: E402
sys.path.insert(0, paths.REPO)

EVS = ["alpha", "beta", "gamma", "delta"]


# ---- abstract machines ---------------------------------------------------------------------
def abstract_machine(rng, with_any=False):
    d = gen.rand_def(rng, provs=("sm",), dense=0.0, guards=True, guard_p=0.35, validators=False, styles=False,
                     events=EVS, nstates=rng.randint(2, 4), ntrans=rng.randint(0, 5), finals=True)
    for t in d["trans"]:
        t.pop("decl", None)
        t.pop("evjoin", None)
        t["internal"] = bool(t["internal"])
    if rng.random() < 0.5:
        ids = [s["id"] for s in d["states"]]
        nonfinal = [s["id"] for s in d["states"] if not s["final"]]
        ev = [rng.choice(EVS)]
        if rng.random() < 0.5 and len(nonfinal) >= 3:
            tgt = rng.choice(ids)      # many sources, one target
            for s in rng.sample(nonfinal, min(len(nonfinal), rng.randint(3, 4))):
                d["trans"].append({"src": s, "tgt": tgt, "evs": list(ev), "internal": False})
        elif len(ids) >= 3:
            src = rng.choice(nonfinal)  # one source, many targets
            for t_ in rng.sample(ids, min(len(ids), rng.randint(3, 4))):
                d["trans"].append({"src": src, "tgt": t_, "evs": list(ev), "internal": False})
    if rng.random() < 0.3:
        # an event whose transitions are a strict prefix of another event's: `step = t1 | t2` and `cycle = step | t3`
        ids = [s["id"] for s in d["states"]]
        nonfinal = [s["id"] for s in d["states"] if not s["final"]]
        for _ in range(rng.randint(2, 3)):
            d["trans"].append({"src": rng.choice(nonfinal), "tgt": rng.choice(ids), "evs": ["chain1", "chain2"], "internal": False})
        for _ in range(rng.randint(1, 2)):
            d["trans"].append({"src": rng.choice(nonfinal), "tgt": rng.choice(ids), "evs": ["chain2"], "internal": False})
    if with_any:
        ids = [s["id"] for s in d["states"]]
        nonfinal = [s["id"] for s in d["states"] if not s["final"]]
        tgt = rng.choice(ids)
        if rng.random() < 0.5:
            # an explicit, GUARDED transition to the same target under the same event, declared before the any(): the state
            # it leaves has both (the guarded one first) in every rendering
            j = len(d["trans"]) + 1
            d["trans"].append({"src": rng.choice(nonfinal), "tgt": tgt, "evs": ["anyev"], "internal": False})
            d["cbs"].append({"okind": "T", "owner": "", "tix": j, "group": "cond", "prov": "sm", "coro": False, "yields": 0,
                             "gname": rng.choice(gen.GNAMES), "expected": True, "ret": "none", "style": "name"})
        for s in nonfinal:
            d["trans"].append({"src": s, "tgt": tgt, "evs": ["anyev"], "internal": False, "from_any": True})
        # the same guards (cond and unless, by ONE name each) on all of them: from_.any(cond=..., unless=...)
        if rng.random() < 0.7:
            first = len(d["trans"]) - len(nonfinal) + 1
            for n in range(rng.randint(1, 2)):
                g, exp = rng.choice(gen.GNAMES), rng.random() < 0.5
                for j in range(first, len(d["trans"]) + 1):
                    d["cbs"].append({"okind": "T", "owner": "", "tix": j, "group": "cond", "prov": "sm", "coro": False, "yields": 0,
                                     "gname": g, "expected": exp, "ret": "none", "style": "name", "name": f"any_guard_{n + 1}"})
    harness.normalize_def(d)
    # guard labels per transition, in the order cond then unless
    for j, t in enumerate(d["trans"], start=1):
        mine = [cb for cb in d["cbs"] if cb["tix"] == j]
        t["guards"] = [cb["name"] for cb in mine if cb["expected"]] + ["!" + cb["name"] for cb in mine if not cb["expected"]]
    return d


def machine_view(d):
    states = [{"id": s["id"], "initial": s["initial"], "final": s["final"]} for s in d["states"]]
    out = []
    for s in d["states"]:
        out.append([{"tgt": t["tgt"], "evs": list(t["evs"]), "internal": t["internal"], "guards": list(t["guards"])}
                    for t in d["trans"] if t["src"] == s["id"]])
    events = sorted({e for t in d["trans"] for e in t["evs"]})
    return {"states": states, "out": out, "events": events}


# ---- renderers ---------------------------------------------------------------------------------
def render(rng, d, style):
    """Returns a body: list of statements (Decl.tla) with extra keys for the real interpreter."""
    body = []
    states_via = rng.choice(["attr", "attr", "enum", "dict"]) if style != "inherit" else "attr"
    for s in d["states"]:
        body.append({"op": "state", "id": s["id"], "initial": s["initial"], "final": s["final"], "via": states_via})
    hcount = [0]

    def newh():
        hcount[0] += 1
        return f"h{hcount[0]}"

    trans = [t for t in d["trans"] if not t.get("from_any")]
    anys = [t for t in d["trans"] if t.get("from_any")]
    attr_trans = []
    trans_for_order = trans
    split_at = max(1, len(trans) - rng.randint(1, 2)) if style == "inherit_attr" else len(trans)
    by_attr = style in ("attr", "event_obj", "decorator")
    mixed = style in ("mixed", "inherit_attr")
    handles_of_event = {}
    acc_of = {}
    k = 0
    while k < len(trans):
        t = trans[k]
        group = [t]
        # merge adjacent guard-free transitions (same events / internal flag) into multi-target or multi-source calls
        if style == "merged" and not t["guards"]:
            mode = rng.choice(["to", "from"])
            while k + len(group) < len(trans):
                n = trans[k + len(group)]
                same = (not n["guards"] and n["evs"] == t["evs"] and n["internal"] == t["internal"] and not t["internal"])
                if mode == "to" and same and n["src"] == t["src"]:
                    group.append(n)
                elif mode == "from" and same and n["tgt"] == t["tgt"] and n["src"] not in [g["src"] for g in group]:
                    group.append(n)
                else:
                    break
        else:
            mode = rng.choice(["to", "from"]) if style in ("from_param", "attr", "merged", "event_obj", "decorator") else "to"
            if style == "to_param":
                mode = "to"
            if t["internal"] and mode == "from":
                mode = "to"
        h = newh()
        # mixed: the same event id may be given by parameter on one transition and by class attribute on another;
        # inherit_attr: the transitions of the subclass part name their events by attribute
        t_by_attr = by_attr or (style == "mixed" and len(group) == 1 and rng.random() < 0.5) or (
            style == "inherit_attr" and k >= split_at)
        evs_param = [] if t_by_attr else list(t["evs"])
        st = {"h": h, "evs": evs_param, "internal": t["internal"], "guards": list(t["guards"]),
              "evstyle": rng.choice(["string", "list", "event"]),
              "itself": all(g["src"] == g["tgt"] for g in group) and len(group) == 1 and rng.random() < 0.5}
        if mode == "to" or len(group) == 1 and mode == "to":
            st.update(op="to", src=t["src"], tgts=[g["tgt"] for g in group])
        else:
            st.update(op="from", tgt=t["tgt"], srcs=[g["src"] for g in group])
        body.append(st)
        if t_by_attr:
            attr_trans.extend(group)
            for e in t["evs"]:
                handles_of_event.setdefault(e, []).append(h)
        k += len(group)
    if by_attr or mixed:
        trans_for_order = attr_trans
        # event attributes in the order that reproduces each transition's event list
        order = []
        for t in trans_for_order:
            for e in t["evs"]:
                if e not in order:
                    order.append(e)
        # a transition's own event order must be a subsequence of the attribute order
        for e in order:
            hs = handles_of_event[e]
            acc = hs[0]
            # a NAMED `|` result (the list already bound to an earlier event) reused as the left operand of the next
            # event's list:  step = t1 | t2 ; cycle = step | t3
            pre = [e0 for e0 in acc_of if 2 <= len(handles_of_event[e0]) < len(hs)
                   and hs[:len(handles_of_event[e0])] == handles_of_event[e0]]
            if pre and rng.random() < 0.7:
                e0 = max(pre, key=lambda x: len(handles_of_event[x]))
                acc = acc_of[e0]
                for x in hs[len(handles_of_event[e0]):]:
                    nh = newh()
                    body.append({"op": "or", "h": nh, "a": acc, "b": x})
                    acc = nh
            elif len(hs) > 1 and rng.random() < 0.5:
                # right-nested association:  h1 | (h2 | (h3 ...))
                acc = hs[-1]
                for x in reversed(hs[:-1]):
                    nh = newh()
                    body.append({"op": "or", "h": nh, "a": x, "b": acc})
                    acc = nh
            else:
                for x in hs[1:]:
                    nh = newh()
                    body.append({"op": "or", "h": nh, "a": acc, "b": x})
                    acc = nh
            est = {"attr": "attr", "event_obj": "Event", "decorator": "decorator", "mixed": "attr", "inherit_attr": "attr"}[style]
            if est == "decorator" and any(len(t["evs"]) > 1 for t in trans if e in t["evs"]):
                # a decorated method is also an `on` action of every transition of its list: on a transition that
                # carries a second event it would run for that event too - not the same machine any more
                est = "attr"
            body.append({"op": "event", "name": e, "h": acc, "style": est})
            acc_of[e] = acc
    if anys:
        if style == "any":
            h = newh()
            body.append({"op": "any", "h": h, "tgt": anys[0]["tgt"], "evs": [], "guards": list(anys[0]["guards"])})
            body.append({"op": "event", "name": "anyev", "h": h, "style": "attr"})
        else:
            hs = []
            for t in anys:
                h = newh()
                body.append({"op": "to", "h": h, "src": t["src"], "tgts": [t["tgt"]], "evs": ["anyev"] if not by_attr else [],
                             "internal": False, "guards": list(t["guards"]), "evstyle": "string", "itself": False})
                hs.append(h)
            if by_attr:
                # (an explicit transition may carry the same event: its list comes first, the attribute is bound once)
                acc = acc_of.get("anyev")
                for x in (hs if acc is not None else hs[1:]):
                    if acc is None:
                        acc = hs[0]
                    nh = newh()
                    body.append({"op": "or", "h": nh, "a": acc, "b": x})
                    acc = nh
                if acc is None:
                    acc = hs[0]
                body[:] = [st for st in body if not (st["op"] == "event" and st["name"] == "anyev")]
                body.append({"op": "event", "name": "anyev", "h": acc, "style": "attr"})
    return body


def attr_order_ok(d):
    """With events as attributes a transition's event list follows the attribute order: only machines whose
    event lists are all subsequences of one global order can be rendered that way."""
    order = []
    for t in d["trans"]:
        for e in t["evs"]:
            if e not in order:
                order.append(e)
    for t in d["trans"]:
        idx = [order.index(e) for e in t["evs"]]
        if idx != sorted(idx):
            return False
    return True


# ---- executing a body on the real DSL -------------------------------------------------------------
def execute(body, d, rt, split=None):
    """Run the statements through State / to / from_ / | / Event and the metaclass.  split=k: statements with index
    < k form a base class, the rest a subclass (states are always in the base)."""
    from statemachine import State, StateMachine
    from statemachine.event import Event
    from statemachine.factory import StateMachineMetaclass
    from statemachine.states import States

    funcs = {}
    shared = {}
    for c, cb in enumerate(d["cbs"], start=1):
        method, function = harness.make_callback(rt, c, cb)
        harness._class_counter[0] += 1
        method.__qualname__ = f"R{harness._class_counter[0]}.{cb['name']}"
        funcs[cb["name"]] = method
        shared.setdefault(cb["name"], []).append((cb, method))
    for name, lst in shared.items():
        if len(lst) > 1:
            # ONE method guarding several transitions (the guards of from_.any(...)): which abstract callback an invocation
            # is follows from the source state it is called for
            table = {d["trans"][cb["tix"] - 1]["src"]: m for cb, m in lst}

            def by_source(self, *, event=None, source=None, target=None, state=None, machine=None, _t=table):
                return _t[source.id](self, event=event, source=source, target=target, state=state, machine=machine)
            by_source.__name__ = name
            by_source.__qualname__ = lst[0][1].__qualname__
            funcs[name] = by_source

    def guards_kw(gs):
        kw = {}
        cond = [g for g in gs if not g.startswith("!")]
        unless = [g[1:] for g in gs if g.startswith("!")]
        if cond:
            kw["cond"] = cond if len(cond) > 1 else cond[0]
        if unless:
            kw["unless"] = unless if len(unless) > 1 else unless[0]
        return kw

    states = {}
    handles = {}

    def run_part(stmts, base_cls):
        attrs = {"__module__": "vmod_c15"}
        sdecl = [s for s in stmts if s["op"] == "state"]
        via = sdecl[0]["via"] if sdecl else "attr"
        if sdecl:
            if via == "enum":
                # plain Enum counted from 1, or IntEnum counted from 0 with the LAST state as member 0 (so that a final state
                # - finals come last - is the falsy member); a single final state is passed bare, as documented
                if len(sdecl) % 2:
                    E = enum.Enum("E", {s["id"]: k + 1 for k, s in enumerate(sdecl)})
                else:
                    E = enum.IntEnum("E", {s["id"]: (k + 1) % len(sdecl) for k, s in enumerate(sdecl)})
                initial = [E[s["id"]] for s in sdecl if s["initial"]]
                finals = [E[s["id"]] for s in sdecl if s["final"]]
                if len(initial) == 1:
                    sts = States.from_enum(E, initial=initial[0], final=finals[0] if len(finals) == 1 else finals,
                                           use_enum_instance=False)
                    attrs["_sts"] = sts
                    for s in sdecl:
                        states[s["id"]] = getattr(sts, s["id"])
                else:
                    via = "attr"
            if via == "dict":
                sts = States({s["id"]: State(initial=s["initial"], final=s["final"]) for s in sdecl})
                attrs["_sts"] = sts
                for s in sdecl:
                    states[s["id"]] = getattr(sts, s["id"])
            if via == "attr":
                for s in sdecl:
                    states[s["id"]] = State(initial=s["initial"], final=s["final"])
        for st in stmts:
            op = st["op"]
            if op == "state" and via == "attr":
                attrs[st["id"]] = states[st["id"]]      # class attributes keep the order of the statements
            if op in ("to", "from", "any"):
                kw = guards_kw(st["guards"])
                if st.get("internal"):
                    kw["internal"] = True
                if st["evs"]:
                    style = st.get("evstyle", "string")
                    kw["event"] = (" ".join(st["evs"]) if style == "string" else list(st["evs"]) if style == "list"
                                   else (Event(st["evs"][0]) if len(st["evs"]) == 1 else " ".join(st["evs"])))
                if op == "to":
                    src = states[st["src"]]
                    handles[st["h"]] = src.to.itself(**kw) if st.get("itself") else src.to(*[states[x] for x in st["tgts"]], **kw)
                elif op == "from":
                    handles[st["h"]] = states[st["tgt"]].from_(*[states[x] for x in st["srcs"]], **kw)
                else:
                    handles[st["h"]] = states[st["tgt"]].from_.any(**kw)
            elif op == "or":
                handles[st["h"]] = handles[st["a"]] | handles[st["b"]]
            elif op == "event":
                tl = handles[st["h"]]
                if st["style"] == "Event":
                    attrs[st["name"]] = Event(tl, name=st["name"].capitalize())
                elif st["style"] == "decorator":
                    def _ev(self):
                        return None
                    _ev.__name__ = st["name"]
                    attrs[st["name"]] = tl(_ev)
                else:
                    attrs[st["name"]] = tl
        for name, fn in funcs.items():
            attrs[name] = fn
        harness._class_counter[0] += 1
        bases = (base_cls,) if base_cls is not None else (StateMachine,)
        return StateMachineMetaclass(f"R_{harness._class_counter[0]}", bases, attrs)

    import warnings
    with warnings.catch_warnings():
        warnings.simplefilter("ignore")
        if split is None:
            return run_part(body, None)
        base = run_part(body[:split], None)
        return run_part(body[split:], base)


def read_back(cls):
    states = [{"id": s.id, "initial": s.initial, "final": s.final} for s in cls.states]
    out = []
    for s in cls.states:
        out.append([{"tgt": t.target.id, "evs": [str(e) for e in t.events], "internal": bool(t.internal),
                     "guards": [str(c) for c in t.cond]} for t in s.transitions])
    return {"states": states, "out": out, "events": sorted(str(e) for e in cls.events)}


class Prebuilt:
    def __init__(self, cls, d):
        self.cls = cls
        self.d = d
        self.clsname = cls.__name__
        self.provider_methods = {}

    def make_provider(self, prov, *a, **k):
        return harness.Built.make_provider(self, prov, *a, **k)


STYLES = ["to_param", "from_param", "attr", "merged", "event_obj", "decorator", "inherit", "any", "mixed", "inherit_attr"]


def run(pid, tier, seed, replay):
    chk = framework.Check(pid, tier, seed)
    quick = tier == "quick"
    rng = random.Random(15000 + seed)
    if replay:
        rc = ec.replay_file(chk, replay)
        chk.finish()
        return rc
    machines = []
    for k in range(250 if quick else 4000):
        machines.append(abstract_machine(rng, with_any=(k % 5 == 0)))
    items, cases = [], []
    for d in machines:
        view = machine_view(d)
        has_any = any(t.get("from_any") for t in d["trans"])
        styles = [s for s in STYLES if (s != "any" or has_any)]
        for style in rng.sample(styles, min(len(styles), 4 if quick else 6)):
            if style in ("attr", "event_obj", "decorator", "mixed", "inherit_attr") and not attr_order_ok(d):
                continue
            if style in ("mixed", "inherit_attr") and any(len(t["evs"]) > 1 for t in d["trans"]):
                continue    # (parameter events come before attribute events on a transition: keep event lists single)
            if style == "any":
                # kept away from the order-sensitive corner: the any() event is declared after every state
                pass
            body = render(rng, d, "to_param" if style == "inherit" else style)
            if style == "inherit_attr":
                body = [st for st in body]
            items.append((d, view, style, body))
            cases.append({"body": [{k: v for k, v in st.items() if k not in ("evstyle", "itself", "via", "style")} | (
                {"internal": st.get("internal", False)} if st["op"] in ("to", "from") else {}) for st in body],
                "machine": view})
    # known finding F11: from_.any() declared BEFORE some state attribute (the property expects the same machine)
    early = []
    for d in machines:
        if any(t.get("from_any") for t in d["trans"]) and len(early) < (6 if quick else 60):
            body = render(rng, d, "any")
            nst = [k for k, st in enumerate(body) if st["op"] == "state"]
            tgt = next(st["tgt"] for st in body if st["op"] == "any")
            movable = [k for k in nst if body[k]["id"] != tgt and not body[k]["final"] and k > 0]
            if not movable:
                continue
            k = movable[-1]
            anyst = [st for st in body if st["op"] == "any" or (st["op"] == "event" and st["name"] == "anyev")]
            rest = [st for st in body if st not in anyst]
            pos = rest.index(body[k])
            early.append((d, machine_view(d), rest[:pos] + anyst + rest[pos:]))
    for d, view, body in early:
        try:
            got = read_back(execute(body, d, harness.Recorder({"classes": [d]})))
        except Exception as e:  # noqa: BLE001
            chk.report({"kind": "rendering_rejected", "style": "any_early", "error": type(e).__name__},
                       f"from_.any() before a state declaration: rejected with {type(e).__name__}: {str(e)[:100]}",
                       {"machine": view, "body": body})
            continue
        if got["out"] != view["out"]:
            chk.report({"kind": "structure_mismatch", "style": "any_early", "part": "out", "any_declared_before_state": True},
                       f"from_.any() declared before a state attribute: the class lacks the any-transition from the states declared "
                       f"later: declared {str(view['out'])[:200]} class {str(got['out'])[:200]}", {"machine": view, "body": body})
    res, _ = tlc.eval_batch("Eval_Decl.tla", cases, shards=12)
    chk.coverage["tlc_cases_evaluated"] = len(cases)
    bad = [(it, r) for it, r in zip(items, res) if not r["same"]]
    if bad:
        (d, view, style, body), r = bad[0]
        raise tlc.MachineryError(f"renderer/spec disagreement: Normalize({style} rendering) # machine: {r['out']} vs {view['out']}")
    # real classes: structure read back, then behaviour of every rendering against the one abstract machine
    scns = []
    distinct = set()
    nstruct = 0
    for (d, view, style, body), r in zip(items, res):
        rt_scn = {"classes": [d], "steps": [], "ni": 3}
        distinct.add((style, len(d["states"]), len(d["trans"])))
        nevents = rng.randint(3, 8)
        steps = [{"op": "new", "i": 1, "cls": 1, "opt": {"rtc": True, "allow": rng.random() < 0.5, "start": "", "budget": 0},
                  "stored": "", "provs": ["sm"], "gv": gen.rand_gv(rng)}]
        evs = view["events"]
        for _ in range(nevents):
            steps.append({"op": "call", "i": 1, "api": "send", "ev": rng.choice(evs + ["nope"]), "gv": gen.rand_gv(rng)})
        scn = {"classes": [d], "steps": steps, "script": {}, "failAt": [], "budget": 0, "ni": 3, "driver": "sync",
               "rendering": style, "body": body}
        split = None
        if style == "inherit_attr":
            # base: the states and the parameter-declared transitions; subclass: the attribute-declared rest
            nst = sum(1 for s in body if s["op"] == "state")
            first_attr = next((k for k, st in enumerate(body) if st["op"] in ("to", "from") and not st["evs"]), None)
            if first_attr is None or first_attr <= nst:
                continue
            try:
                execute(body[:first_attr], d, harness.Recorder(rt_scn))
                split = first_attr
            except Exception:  # noqa: BLE001 - the base part alone is not a valid machine: skip this rendering
                continue
        if style == "inherit":
            # base = all states + the longest proper prefix of the transitions that is a valid machine on its own
            nst = sum(1 for s in body if s["op"] == "state")
            for k in range(len(body) - 1, nst, -1):
                try:
                    execute(body[:k], d, harness.Recorder(rt_scn))
                    split = k
                    break
                except Exception:  # noqa: BLE001
                    continue
            if split is None:
                continue
        scn["split"] = split
        runner = harness.Runner.__new__(harness.Runner)
        try:
            rt = harness.Recorder(scn)
            cls = execute(body, d, rt, split)
        except Exception as e:  # noqa: BLE001
            chk.report({"kind": "rendering_rejected", "style": style, "error": type(e).__name__},
                       f"rendering {style} of a valid machine was rejected: {type(e).__name__}: {str(e)[:120]}",
                       {"machine": view, "body": body})
            continue
        got = read_back(cls)
        nstruct += 1
        want = {"states": r["states"], "out": r["out"], "events": sorted(r["events"])}
        if got != want:
            part = next(k for k in ("states", "events", "out") if got[k] != want[k])
            chk.report({"kind": "structure_mismatch", "style": style, "part": part,
                        "any_rendering": style == "any"},
                       f"rendering {style}: {part} of the class differ from the declared machine: declared {str(want[part])[:300]} "
                       f"class {str(got[part])[:300]}", {"machine": view, "body": body})
            continue
        # behaviour (per-rendering copy of the definition: States.from_enum stores the enum's values in the model)
        import copy as _copy
        d = _copy.deepcopy(d)
        harness.normalize_def(d)
        d["events"] = [str(e) for e in cls.events]
        for s_def, s_real in zip(d["states"], cls.states):
            if isinstance(s_real.value, int):
                s_def["value"] = {"t": "int", "v": s_real.value}
        scn["classes"] = [d]
        runner.scn = scn
        runner.rt = rt
        runner.built = [Prebuilt(cls, d)]
        runner.ni = 3
        runner.init_runtime()
        res_run = runner.run()
        res_run["classes"] = harness.spec_classes(scn)
        scns.append((scn, res_run))
    batch = [r for _, r in scns]
    verdicts, stats = tlc.validate_batch(batch, shards=6)
    chk.cov_add("traces_validated_against_impl", len(batch))
    chk.cov_add("states", stats["distinct"])
    chk.cov_add("transitions", stats["states"])
    for (scn, res_run), v in zip(scns, verdicts):
        if v["ok"]:
            if len(chk.samples) < 2:
                chk.add_sample({"rendering": scn["rendering"], "body": scn["body"][:8], "trace_head": res_run["lines"][:4]})
            continue
        feats, nxt = ec.diagnose(scn, res_run, v)
        feats.update(kind="behaviour_mismatch", style=scn["rendering"])
        chk.report(feats, f"rendering {scn['rendering']}: execution is not a behaviour of the abstract machine: matched {v['matched']} of "
                   f"{v['lines']} lines; first unexplained line {str(nxt)[:250]}",
                   {"scenario": {k: v2 for k, v2 in scn.items()}, "observed": res_run["lines"], "matched": v["matched"]})
    chk.coverage.update({"evaluations": len(items), "distinct_nontrivial": len(distinct), "classes_read_back": nstruct,
                         "exhaustive": False,
                         "rule": ("random abstract machines (2-4 states, up to 8 transitions, multi-event, self/internal, guards; every fifth "
                                  "with an any()-shaped event) x 4-6 of the renderings to/from_/attribute events with random `|` association/"
                                  "merged multi-target and multi-source calls/Event objects/decorated methods/base+subclass/from_.any(), states "
                                  "as attributes, States.from_enum or States({...}); distinct = (rendering, #states, #transitions)")})
    return chk.finish()
