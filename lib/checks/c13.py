"""C13 - send(), event methods and bound events are one and the same entry point.

Model: a single ExtCall(i, ev, gv) action whatever the calling style (the trace spec maps send / sm.<ev>() /
sm.events[k]() / sm.allowed_events[k]() / bind_events_to / MachineMixin-bound triggers to it), so
interchangeability = the same accepted behaviours; DoSelect gives an undeclared name the no-candidate outcome
(TransitionNotAllowed(name, state) or tolerated None) with the instance otherwise unchanged; ProjAllowed
(unique, per-state first-appearance order) and d.events (declared order) are compared after every call.
Binding: histories mixing all calling styles; as unknown names: every attribute name of the machine taken from
dir(sm) at run time (so new methods are covered automatically), state ids, dunders and random strings;
plain methods are shadowed by a recording spy during the call so that a silent invocation is seen.
"""
import random

import enginecheck as ec
import framework
import gen
import harness

RANDOM_NAMES = ["", " ", "go ", "Go", "None", "0", "a.b", "send", "model", "état", "x" * 50]
RESERVED = "__initial__"   # known finding F16: kept to a few dedicated scenarios so that other traces run to their end


def scenario(rng, ndir=6):
    scn = gen.rand_engine_scenario(
        rng, nested=0.2, fail=0.0, dense=0.4, guards=rng.random() < 0.4, validators=False,
        coro=rng.choice([0.0, 0.0, 0.0, 0.6]), yields=0, nsends=0, unknown=(),
        provs=rng.choice([["sm"], ["sm", "model"]]))
    d = scn["classes"][0]
    ids = [s["id"] for s in d["states"]]
    new = scn["steps"][0]
    has_coro = any(cb["coro"] for cb in d["cbs"])
    if has_coro:
        new["opt"]["rtc"] = True
        scn["driver"] = rng.choice(["sync", "inloop"])
    mixin = (not has_coro) and rng.random() < 0.25
    if mixin:
        new["mixin"] = True
        new["opt"].update(rtc=True, allow=False, start="")
        new["provs"] = ["sm", "model"] if any(cb["prov"] == "model" for cb in d["cbs"]) else ["sm"]
        for cb in d["cbs"]:
            if cb["prov"] not in ("sm", "model"):
                cb["prov"] = "sm"
    steps = [new]
    styles = ["send", "event", "events_item", "allowed_item", "bound"] + (["mixin_bound"] if mixin else [])
    if not mixin and rng.random() < 0.35:
        # a second machine of the class lends its event objects: sm.send(other.events[k]) - an Event is a str - is a send
        # of that NAME to sm
        steps.append({"op": "new", "i": 2, "cls": 1, "opt": dict(new["opt"]), "stored": "", "provs": list(new["provs"]),
                      "gv": gen.rand_gv(rng)})
        styles += ["send_from", "send_from"]
    for _ in range(rng.randint(4, 14)):
        r = rng.random()
        if r < 0.45:
            steps.append({"op": "call", "i": 1, "api": rng.choice(styles), "ev": rng.choice(d["evlist"]),
                          "gv": gen.rand_gv(rng), "j": 2})
        else:
            kind = rng.random()
            if kind < 0.6:
                name = f"@dir:{rng.randint(0, 400)}"
            elif kind < 0.8:
                name = rng.choice(ids)
            else:
                name = rng.choice(RANDOM_NAMES)
            steps.append({"op": "call", "i": 1, "api": "send", "ev": name, "gv": gen.rand_gv(rng), "spy": True})
    scn["steps"] = steps
    return scn


def featurize(scn, res, v):
    lines = res["lines"]
    k = v["matched"]
    call = ec.first_call_before(lines, k)
    d = scn["classes"][0]
    ev = call.get("ev", "")
    from statemachine import StateMachine
    return {"send_name_is_attribute": call.get("api") == "send" and ev not in d["events"]
            and hasattr(StateMachine, ev) or ev in [s["id"] for s in d["states"]],
            "name": ev[:40]}


def run(pid, tier, seed, replay):
    chk = framework.Check(pid, tier, seed)
    if replay:
        rc = ec.replay_file(chk, replay, featurize=featurize)
        chk.finish()
        return rc
    rng = random.Random(13000 + seed)
    quick = tier == "quick"
    lrng = random.Random(13500 + seed)
    # triggers bound onto another object are the machine's entry points for as long as THEY live: a factory may return only
    # the object it bound them to (no trace here: nothing else is allowed to hold the machine)
    import gc
    import weakref
    nlife = 0
    for _ in range(60 if quick else 600):
        d = gen.rand_def(lrng, provs=("sm",), dense=0.0, guards=False, validators=False, styles=False, nstates=lrng.randint(2, 4))
        harness.normalize_def(d)
        b = harness.Built(harness.Recorder({"classes": [d]}), d)
        first = next((t for t in d["trans"] if t["src"] == d["initial"]), None)
        if first is None:
            continue
        holder = type("Holder", (), {})()
        sm = b.cls()
        ref = weakref.ref(sm)
        sm.bind_events_to(holder)
        del sm
        gc.collect()
        nlife += 1
        try:
            getattr(holder, first["evs"][0])()
            alive = ref()
            ok = alive is not None and alive.current_state.id in {t["tgt"] for t in d["trans"]
                                                                    if t["src"] == d["initial"] and first["evs"][0] in t["evs"]}
            why = "" if ok else f"machine alive={alive is not None}, state {getattr(getattr(alive, 'current_state', None), 'id', None)}"
        except Exception as e:  # noqa: BLE001
            ok, why = False, f"{type(e).__name__}: {str(e)[:80]}"
        if not ok:
            chk.report({"kind": "bound_trigger_outlives_machine"},
                       f"a trigger bound onto another object stopped working once nothing else referred to the machine: {why}",
                       {"definition": d, "event": first["evs"][0]})
    chk.coverage["machines_reachable_only_through_bound_triggers"] = nlife
    fam = [gen.family_member(rng, nstates=3, dense=0.2, guards=True, validators=False, nested=False, max_cbs=3)
           for _ in range(4 if quick else 25)]
    for m in fam:
        m["evs"] = m["evs"] + [m["classes"][0]["states"][0]["id"], "send"]
    consts = {"NI": 1, "MaxCalls": 3, "MaxFails": 0, "MaxActs": 0}
    _cov, hs = ec.mc_run(chk, fam, consts, required=("MCCall", "MCSelect", "MCUnwind", "MCAssign"),
                         label="entry-point family", hist_limit=800 if quick else 10000)
    styles = ["send", "event", "events_item", "allowed_item", "bound"]
    for scn in hs:      # the specification's behaviours, each call in a randomly chosen calling style
        declared = set(scn["classes"][0]["evlist"])
        for st in scn["steps"]:
            if st["op"] == "call" and st.get("api") == "send" and st.get("ev") in declared:
                st["api"] = rng.choice(styles)
    ec.run_validate(chk, hs, "entry points: spec-behaviour replay in mixed calling styles", shards=4 if quick else 12,
                    featurize=featurize)
    spied = []

    def on_result(scn, res):
        for n in res.get("notes", []):
            if n["kind"] == "attr_invoked":
                spied.append((scn, res, n["name"]))

    scns = [scenario(rng) for _ in range(1500 if quick else 25000)]
    for scn in scns[:6]:
        scn["steps"].append({"op": "call", "i": 1, "api": "send", "ev": RESERVED, "gv": gen.rand_gv(rng), "spy": True})
    ec.run_validate(chk, scns, "entry points: random histories", shards=4 if quick else 12, featurize=featurize,
                    on_result=on_result)
    for scn, res, name in spied:
        chk.report({"kind": "attr_invoked", "send_name_is_attribute": True, "name": name},
                   f"sm.send({name!r}) invoked the machine's attribute {name!r}",
                   {"scenario": scn, "observed": res["lines"]})
    names = set()
    for scn in scns:
        pass
    chk.coverage["attribute_invocations_seen"] = len(spied)
    chk.coverage["rule"] = ("histories mixing send / event method / events item / allowed_events item / bind_events_to / MachineMixin "
                            "triggers; unknown names: dir(sm) at run time (index drawn at random, ~170 names), state ids, dunders, "
                            "odd strings; both engines")
    return chk.finish()
