"""C03 - run-to-completion: nested events are queued, FIFO, never interleaved.

Model: NestedSend (RTC: append to the queue, the callback gets None; non-RTC: push a nested trigger,
depth-first, result back to the callback), LoopPop/LoopExit (FIFO, first result kept) with the formulas
InvRTCNoNesting (stack never deeper than loop+one trigger, whatever the chain length),
PropQueueFIFO, and the result delivery of Deliver().
Binding: callbacks log every nested send and what it returned, their nesting level and (for chains)
the Python call-stack depth; nested sends are placed in every group including the initial enter.
"""
import random

import enginecheck as ec
import framework
import gen
import harness

EVS = ["alpha", "beta", "gamma", "delta"]


def scenario(rng):
    coro = rng.choice([0.0, 0.0, 0.0, 0.5, 1.0])
    # a third of the machines carry guards (and some validators): a guard that sends an event and then refuses its own
    # transition leaves an IGNORED first event (allow=True) with something queued behind it
    guarded = rng.random() < 0.35
    scn = gen.rand_engine_scenario(
        rng, nested=1.0, fail=0.0, dense=rng.choice([0.5, 0.9]), guards=guarded, validators=guarded and rng.random() < 0.4,
        coro=coro, yields=1, nsends=rng.randint(1, 5), unknown=(), events=EVS, evcb_p=rng.choice([0.0, 0.4]),
        provs=rng.choice([["sm"], ["sm", "model"], ["sm", "l1"]]), allow=True)
    d = scn["classes"][0]
    if any(cb["coro"] for cb in d["cbs"]):
        scn["steps"][0]["opt"]["rtc"] = True
        if rng.random() < 0.5:
            scn["driver"] = "inloop"
    # nested sends from several callbacks, including enter callbacks of the initial state
    n = len(d["cbs"])
    if n:
        script = {}
        for c in rng.sample(range(1, n + 1), min(n, rng.randint(1, 4))):
            script[str(c)] = [rng.choice(d["evlist"]) for _ in range(rng.randint(1, 2))]
        # sometimes a callback also attaches a callback-less listener first, or takes a copy of the machine right after its
        # send (slot 3 then holds a machine at rest: nothing of what is queued here belongs to it)
        for c in list(script):
            r = rng.random()
            if r < 0.15:
                script[c] = [{"listen": "empty"}] + script[c]
            elif r < 0.3 and not scn.get("lender") and d["cbs"][int(c) - 1]["group"] not in ("cond", "validators"):
                script[c] = script[c] + [{"copy": 3, "how": rng.choice(["deepcopy", "pickle"])}]
                for _ in range(rng.randint(1, 3)):
                    scn["steps"].append({"op": "call", "i": 3, "api": "send", "ev": rng.choice(d["evlist"]), "gv": gen.rand_gv(rng)})
                break
        scn["script"] = script
    scn["budget"] = rng.randint(1, 6)
    scn["steps"][0]["opt"]["budget"] = scn["budget"]
    return scn


def chain_scenario(length, rtc, coro=False):
    """s0 -tick-> s1 -tick-> s0 ...; the enter callback of every state sends the next tick."""
    d = {"name": "Chain",
         "states": [{"id": "s0", "initial": True, "final": False}, {"id": "s1", "initial": False, "final": False}],
         "trans": [{"src": "s0", "tgt": "s1", "evs": ["tick"], "internal": False},
                   {"src": "s1", "tgt": "s0", "evs": ["tick"], "internal": False}],
         "initial": "s0", "evlist": ["tick"],
         "cbs": [{"okind": "GS", "owner": "", "tix": 0, "group": "enter", "prov": "sm", "coro": coro},
                 {"okind": "GT", "owner": "", "tix": 0, "group": "on", "prov": "sm", "coro": coro, "ret": "r2"},
                 {"okind": "GT", "owner": "", "tix": 0, "group": "after", "prov": "sm", "coro": False}]}
    opt = {"rtc": rtc, "allow": False, "start": "", "budget": length}
    return {"classes": [d], "script": {"1": ["tick"]}, "budget": length, "ni": 3, "pydepth": True,
            "driver": "sync", "timeout": 120,
            "steps": [{"op": "new", "i": 1, "cls": 1, "opt": opt, "stored": "", "provs": ["sm"], "gv": {}},
                      {"op": "call", "i": 1, "api": "send", "ev": "tick", "gv": {}, "budget": length}]}


def fanout_scenario(n, coro=False):
    """One callback sends n events in one go: all of them wait in the queue at once and then run in the order sent."""
    d = {"name": "Fan",
         "states": [{"id": "s0", "initial": True, "final": False}, {"id": "s1", "initial": False, "final": False},
                    {"id": "s2", "initial": False, "final": False}],
         "trans": [{"src": "s0", "tgt": "s1", "evs": ["go"], "internal": False},
                   {"src": "s1", "tgt": "s2", "evs": ["tick"], "internal": False},
                   {"src": "s2", "tgt": "s1", "evs": ["tick"], "internal": False},
                   {"src": "s2", "tgt": "s2", "evs": ["tock"], "internal": False}],
         "initial": "s0", "evlist": ["go", "tick", "tock"],
         "cbs": [{"okind": "T", "owner": "", "tix": 1, "group": "on", "prov": "sm", "coro": coro, "style": "name", "ret": "r1"},
                 {"okind": "GT", "owner": "", "tix": 0, "group": "after", "prov": "sm", "coro": False}]}
    opt = {"rtc": True, "allow": True, "start": "", "budget": n}
    # (tock is only enabled in s2: whether each one fires depends on how many ticks ran before it - order matters)
    sends = [("tock" if k % 3 == 2 else "tick") for k in range(n)]
    return {"classes": [d], "script": {"1": sends}, "budget": n, "ni": 3, "driver": "sync", "timeout": 120,
            "steps": [{"op": "new", "i": 1, "cls": 1, "opt": opt, "stored": "", "provs": ["sm"], "gv": {}},
                      {"op": "call", "i": 1, "api": "send", "ev": "go", "gv": {}, "budget": n}]}


def check_chain_depth(chk, scn, res, rtc):
    """Harness-side corollary of InvRTCNoNesting: constant Python stack depth along the chain."""
    lines = res["lines"]
    start = next(i for i, ln in enumerate(lines) if ln["e"] == "call")
    per_cb = {}
    for ln in lines[start:]:
        if ln["e"] == "B":
            per_cb.setdefault(ln["c"], []).append(ln["pyd"])
    nb = sum(len(v) for v in per_cb.values())
    chk.cov_add("chain_callbacks", nb)
    if rtc:
        bad = {c: (min(v), max(v)) for c, v in per_cb.items() if min(v) != max(v)}
        if bad or nb < 3 * scn["budget"]:
            chk.report({"kind": "chain_depth", "rtc": True},
                       f"self-triggering chain of {scn['budget']} events: python stack depth varies {bad} "
                       f"or the chain did not run to its end ({nb} callbacks)",
                       {"scenario": scn, "depths": {str(k): v[:20] for k, v in per_cb.items()}})


def run(pid, tier, seed, replay):
    chk = framework.Check(pid, tier, seed)
    if replay:
        rc = ec.replay_file(chk, replay)
        chk.finish()
        return rc
    rng = random.Random(3000 + seed)
    quick = tier == "quick"
    ec.standard(
        chk, rng,
        family_kw=dict(nstates=3, dense=0.7, guards=False, validators=False, nested=True, max_cbs=4),
        consts={"NI": 1, "MaxCalls": 2, "MaxFails": 0, "MaxActs": 0},
        required=("MCNested", "MCNRet", "MCLoopPop", "MCLoopExit", "MCTrigDone"),
        scen_fn=scenario, n_random=1200 if quick else 20000, n_hist=1200 if quick else 15000,
        fam_size=3 if quick else 12, shards=4 if quick else 12, label="run to completion")
    # long self-triggering chains: longer than the recursion limit in RTC mode; validated by TLC too
    # (rtc=False nests by design - about a dozen Python frames per link -, so that chain stays well below the limit)
    chains = []
    for length, rtc, coro in ([(1500, True, False), (300, True, True), (60, False, False)] if quick else
                              [(5000, True, False), (5000, True, True), (2000, True, False), (60, False, False)]):
        scn = chain_scenario(length, rtc, coro)
        chains.append((scn, rtc))
    for scn, rtc in chains:
        try:
            res = harness.run_scenario(scn)
        except TimeoutError:
            chk.report({"kind": "hang"}, "chain did not terminate", {"scenario": scn})
            continue
        bad_exc = [ln for ln in res["lines"] if ln["e"] == "ret" and ln["k"] == "exc"]
        if bad_exc:
            chk.report({"kind": "chain_exception", "rtc": rtc},
                       f"chain of {scn['budget']} nested events raised {bad_exc[0]['exc']}",
                       {"scenario": scn})
            continue
        check_chain_depth(chk, scn, res, rtc)
    fans = [fanout_scenario(1500), fanout_scenario(1100, coro=True)] if quick else [
        fanout_scenario(3000), fanout_scenario(1500, coro=True), fanout_scenario(1025)]
    ec.run_validate(chk, [s for s, _ in chains] + fans, "run to completion: long chains and wide fan-outs",
                    shards=len(chains) + len(fans))
    ec.nonrtc_leg(chk, rng, 250 if quick else 4000, shards=2 if quick else 8)
    chk.coverage["rule"] = ("family: <=3 states, <=4 callbacks, nested sends from any callback (budget 2), all orders; random: "
                            "1-4 sending callbacks per machine in any group incl. initial enter, fan-out, both engines, "
                            "rtc on/off; chains of 1500..5000 self-triggered events; 1000-3000 events sent by ONE callback, all queued at once")
    return chk.finish()
