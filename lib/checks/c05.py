"""C05 - async callbacks behave exactly like their synchronous counterparts.

One specification, two engines: System.tla has a single `async` switch that changes exactly three
things (construction does not drain, rtc=False is refused, the callbacks of one group are gathered and
may interleave); everything else - selection, phases, view, queueing, failures, results - is shared, and
Advance/Assign/Select/TrigDone require that no started callback is still open (awaited before the next
phase).  TLC checks the engine formulas with async = TRUE over all in-group interleavings.
Binding: scenarios of the C01-C04/C14 generators are run as twins: all plain functions, all coroutines,
each single callback a coroutine, random mixes, coroutines that suspend 0-2 times; drivers: no loop,
inside a running loop, and in turn from several loop-less threads.  Every execution goes through the
same trace spec, and twins are additionally compared with each other (results, exceptions, states).
"""
import copy
import random

import enginecheck as ec
import framework
import gen
import harness

from checks import c01, c02, c03, c04, c14, c17


def sync_base(rng):
    kind = rng.choice(["sel", "cb", "rtc", "fail", "res", "clone"])
    if kind == "sel":
        scn = c01.scenarios(rng, 1, coro=0.0)[0]
    elif kind == "cb":
        scn = c02.scenario(rng)
    elif kind == "rtc":
        scn = c03.scenario(rng)
    elif kind == "fail":
        base = c04.base_scenario(rng)
        n, vs = c04.crash_points(rng, base, per_base=1)
        scn = vs[0] if vs else base
        # one crash point only: after a failure the invocation count of an async machine runs ahead
        # (gathered siblings of the failed callback still run), so a second index would not name the
        # same callback in both twins
        scn["failAt"] = scn.get("failAt", [])[:1]
    elif kind == "clone":
        # a machine is still the same machine after copy.deepcopy / pickle: the twins are copied at the same point
        scn = c17.scenario(rng)
        scn["steps"] = [st for st in scn["steps"] if st.get("api") not in ("write_setter", "write_model")]
        # (no crash points by invocation number: a clone of a not yet activated async machine runs its activation
        # callbacks later than its plain twin, so the numbers would name different callbacks)
        scn["failAt"] = []
    else:
        scn = c14.scenario(rng)
    if scn.get("lender"):
        # (a lender machine that nobody drives stays unactivated in the async twin: not a difference of behaviour)
        scn["steps"] = [st for st in scn["steps"] if not (st["op"] == "new" and st["i"] == 2)]
        for st in scn["steps"]:
            if st.get("api") == "send_from":
                st["api"] = "send"
        scn["lender"] = False
    d = scn["classes"][0]
    for cb in d["cbs"]:
        cb["coro"] = False
        cb["yields"] = 0
    scn["driver"] = "sync"
    scn["steps"][0]["opt"]["rtc"] = True   # the async engine only supports RTC
    scn["kind"] = kind
    return scn


def variants(rng, base, max_single):
    d = base["classes"][0]
    n = len(d["cbs"])
    if n == 0:
        return []
    subsets = [set(range(n))]
    singles = list(range(n))
    rng.shuffle(singles)
    subsets += [{k} for k in singles[:max_single]]
    for _ in range(2):
        subsets.append({k for k in range(n) if rng.random() < 0.5} or {0})
    out = []
    # no suspensions when callbacks fail (gather does not cancel siblings) or send events (the order
    # in which suspended siblings of one group enqueue events is unconstrained, like any in-group order)
    failing = bool(base.get("failAt")) or bool(base.get("script"))
    for sub in subsets:
        v = copy.deepcopy(base)
        for k, cb in enumerate(v["classes"][0]["cbs"]):
            cb["coro"] = k in sub
            cb["yields"] = 0 if failing else rng.randint(0, 2) if cb["coro"] else 0
        cbs_v = v["classes"][0]["cbs"]
        ctor = set(v["steps"][0]["provs"])
        from checks.c12 import registered
        # (known finding F7: a listener with coroutine methods attached late to a machine that runs the sync engine)
        if not any(cb["coro"] and cb["prov"] in ctor and registered(v["classes"][0], cb) for cb in cbs_v):
            for cb in cbs_v:
                if cb["prov"] not in ctor:
                    cb["coro"], cb["yields"] = False, 0
        # on a machine that runs the async engine anyway, some plain callbacks only RETURN an awaitable
        if any(cb["coro"] and cb["prov"] in ctor and registered(v["classes"][0], cb)
               and cb.get("style") not in ("property", "event") and not cb.get("evcb") for cb in cbs_v):
            for cb in cbs_v:
                if (not cb["coro"] and cb.get("style") not in ("property", "event") and not cb.get("evcb")
                        and not base.get("script") and rng.random() < 0.25):
                    cb["defer"] = True
        v["driver"] = rng.choice(["sync", "inloop", "threads"])
        v["coro_subset"] = sorted(sub)
        out.append(v)
    return out


def outcome_lines(res):
    """What the callers of EVENTS got back and what the machine they addressed then showed.  (An async machine activates
    at its first event: until then - after add_listener, a custom attribute, a copy - it legitimately shows no state
    where its plain twin already sits in the initial one; the trace validation covers those steps.)"""
    out = []
    call = None
    for ln in res["lines"]:
        if ln["e"] in ("call", "new"):
            call = ln
        elif ln["e"] == "ret" and ln.get("cmp", True) and call is not None and call["e"] == "call" and call.get("api") in (
                "send", "send_from", "event", "events_item", "allowed_item", "bound", "mixin_bound"):
            p = ln["proj"][ln["i"] - 1]
            out.append((ln["k"], ln["res"]["k"], tuple(ln["res"]["items"]), tuple(sorted(ln["exc"].items())),
                        (p["cur"], p["state"], tuple(p["allowed"]))))
    return out


def run(pid, tier, seed, replay):
    chk = framework.Check(pid, tier, seed)
    if replay:
        rc = ec.replay_file(chk, replay)
        chk.finish()
        return rc
    rng = random.Random(5000 + seed)
    quick = tier == "quick"
    fam = [gen.family_member(rng, nstates=2, dense=0.9, guards=True, validators=False, nested=True,
                             coro=0.7, max_cbs=4) for _ in range(3 if quick else 10)]
    fam = [m for m in fam if any(cb["coro"] for cb in m["classes"][0]["cbs"])] or fam
    consts = {"NI": 1, "MaxCalls": 2, "MaxFails": 1, "MaxActs": 1}
    _cov, hs = ec.mc_run(chk, fam, consts, required=("MCBegin", "MCEnd", "MCAdvance", "MCLoopPop"), label="async family", hist_limit=800 if quick else 10000)
    ec.run_validate(chk, hs, "async: spec-behaviour replay", shards=4 if quick else 12)
    # twins
    results = {}

    def keep(scn, res):
        results[id(scn)] = res

    nbase = 220 if quick else 4000
    bases, twins = [], []
    for _ in range(nbase):
        b = sync_base(rng)
        vs = variants(rng, b, max_single=2 if quick else 6)
        bases.append(b)
        twins.append(vs)
    allscn = bases + [v for vs in twins for v in vs]
    ec.run_validate(chk, allscn, "async twins", shards=6 if quick else 14, on_result=keep)
    ncmp = 0
    for b, vs in zip(bases, twins):
        rb = results.get(id(b))
        if rb is None:
            continue
        ob = outcome_lines(rb)
        first_ret = next((ln for ln in rb["lines"] if ln["e"] == "ret"), None)
        ctor_sends = False
        for ln in rb["lines"]:
            if ln["e"] == "ret":
                break
            if ln["e"] == "ncall":
                ctor_sends = True
        if first_ret is None or first_ret["k"] == "exc" or ctor_sends:
            # the plain-function machine failed while activating inside its constructor; an async
            # machine activates at its first event instead, so the two call sequences do not align
            # (same when the initial enter callbacks send events: they run at construction for the
            # plain machine but behind the first external event for the async one)
            continue
        for v in vs:
            rv = results.get(id(v))
            if rv is None:
                continue
            ncmp += 1
            ov = outcome_lines(rv)
            if ov != ob:
                k = next((i for i, (x, y) in enumerate(zip(ob, ov)) if x != y), min(len(ob), len(ov)))
                chk.report({"kind": "twin_mismatch", "base_kind": b.get("kind"), "driver": v["driver"]},
                           f"async twin (coroutines {v['coro_subset']}, driver {v['driver']}) differs from the plain-function "
                           f"machine at call #{k}: sync={ob[k] if k < len(ob) else None} async={ov[k] if k < len(ov) else None}",
                           {"scenario": v, "sync_scenario": b, "observed": rv["lines"]})
    chk.coverage["twin_pairs_compared"] = ncmp
    chk.coverage["rule"] = ("bases drawn from the selection / callback-order / run-to-completion / failure / result generators; "
                            "variants: all callbacks coroutines, single callbacks, random mixes, 0-2 suspensions; drivers sync, "
                            "in-loop, threads in turn; each execution validated against the one spec and twins compared pairwise")
    chk.assumptions += ["failure-injection twins use coroutines that do not suspend (gather does not cancel siblings)"]
    return chk.finish()
