"""C18 - the generated diagram is a faithful picture of the machine.

Model: Diagram.tla - Diagram(d, cur): one node per state (final -> double border, active -> exactly the current
state of an instance, none for a class), the initial pseudo-node pointing at the initial state, one edge per
external transition from source to target labelled with its events and guards (in per-state declaration order),
internal transitions listed inside their state and never drawn as edges.  TLC evaluates Diagram for every
(definition, current state).
Binding: for generated definitions (guards, multi-event, self, internal and parallel transitions, final states) the
pydot object returned by DotGraphMachine(cls)() and by sm._graph() for EVERY state as current state is projected to
the abstract graph (node names, peripheries, fill colour, edge source/target/label, label lines of the nodes) and
compared with the spec.
"""
import random
import sys

import framework
import gen
import harness
import tlc

import paths  # noqa: E402
sys.path.insert(0, paths.REPO)


def unq(s):
    s = str(s)
    return s[1:-1] if len(s) >= 2 and s[0] == '"' and s[-1] == '"' else s


def project(graph, active_color="turquoise"):
    nodes, internal = [], []
    for n in graph.get_nodes():
        name = unq(n.get_name())
        if name in ("i", "node", "graph", "edge"):
            continue
        label = unq(n.get("label") or "").replace("\\n", "\n")
        lines = label.split("\n")[1:]
        inner = [ln for ln in lines if ln and not ln.startswith("entry /") and not ln.startswith("exit /")]
        evs = []
        for ln in inner:
            for piece in ln.split(", "):
                if " / " in piece or piece.endswith(" /"):
                    evs.append(piece.split(" /")[0].split(" "))
                elif not evs:
                    evs.append(["?" + piece])
                # else: a further action name of the same internal transition
        nodes.append({"id": name, "final": str(n.get("peripheries")) == "2",
                      "active": unq(n.get("fillcolor") or "") == active_color})
        internal.append(evs)
    initial, edges = None, []
    for e in graph.get_edges():
        src, dst = unq(e.get_source()), unq(e.get_destination())
        if src == "i":
            initial = dst if initial is None else initial + "+" + dst
            continue
        label = unq(e.get("label") or "").replace("\\n", "\n")
        first, _, rest = label.partition("\n")
        guards = []
        if rest.startswith("[") and rest.endswith("]"):
            guards = [g for g in rest[1:-1].split(", ") if g]
        edges.append({"src": src, "tgt": dst, "evs": first.split(" ") if first else [], "guards": guards})
    return {"nodes": nodes, "initial": initial or "", "edges": edges, "internal": internal}


def definition(rng):
    d = gen.rand_def(rng, provs=("sm",), dense=0.3, guards=True, guard_p=0.5, validators=False, styles=False,
                     coro=0.0, nstates=rng.randint(1, 5), ntrans=rng.randint(0, 7))
    # at most one `on` action per internal transition (the label joins actions and transitions with ", ")
    seen = set()
    keep = []
    for cb in d["cbs"]:
        if cb["okind"] == "T" and cb["group"] == "on" and d["trans"][cb["tix"] - 1]["internal"]:
            if cb["tix"] in seen:
                continue
            seen.add(cb["tix"])
        keep.append(cb)
    d["cbs"] = keep
    # an event named like a state (closed.to(opened, event="opened")): the class attribute of that name is then the event
    if d["trans"] and rng.random() < 0.25:
        t = rng.choice(d["trans"])
        t["evs"] = [t["tgt"]]
        d["evlist"] = [e for e in dict.fromkeys(e for t_ in d["trans"] for e in t_["evs"])]
        d["event_named_like_state"] = True
    # state values of every kind (falsy ones included) and display names shared by several states: the picture is
    # about state identity, not about truthiness, values or names
    d["value_scheme"] = gen.assign_values(rng, d, same_name_p=0.3)
    harness.normalize_def(d)
    return d


def drive(rng, cls, d, want):
    """A fresh instance brought into state `want` by real events (guards all hold), or None."""
    from collections import deque
    nxt = {}
    for t in d["trans"]:
        nxt.setdefault(t["src"], []).append(t)
    prev, todo = {d["initial"]: None}, deque([d["initial"]])
    while todo:
        s = todo.popleft()
        for t in nxt.get(s, []):
            if t["tgt"] not in prev:
                prev[t["tgt"]] = (s, t)
                todo.append(t["tgt"])
    if want not in prev:
        return None
    path = []
    s = want
    while prev[s] is not None:
        s, t = prev[s]
        path.append(t)
    sm = cls()
    for t in reversed(path):
        sm.send(t["evs"][0])
        if sm.current_state.id != t["tgt"]:
            return None      # an earlier candidate of the source carries the same event
    return sm if sm.current_state.id == want else None


def spec_def(d):
    guards = []
    for j, t in enumerate(d["trans"], start=1):
        mine = [cb for cb in d["cbs"] if cb["okind"] == "T" and cb["tix"] == j and cb["group"] == "cond"]
        guards.append([cb["name"] for cb in mine if cb["expected"]] + ["!" + cb["name"] for cb in mine if not cb["expected"]])
    return {"states": [{"id": s["id"], "initial": s["initial"], "final": s["final"]} for s in d["states"]],
            "trans": [{"src": t["src"], "tgt": t["tgt"], "evs": list(t["evs"]), "internal": bool(t["internal"])} for t in d["trans"]],
            "initial": d["initial"], "guards": guards}


def run(pid, tier, seed, replay):
    chk = framework.Check(pid, tier, seed)
    quick = tier == "quick"
    rng = random.Random(18000 + seed)
    if replay:
        import json
        print(json.dumps(json.load(open(replay))["replay"], indent=1)[:3000])
        return 1
    from statemachine.contrib.diagram import DotGraphMachine
    rt = harness.Recorder({"classes": []})
    items = []      # (definition, built class, cur, observed projection, what)
    cases = []
    for _ in range(1500 if quick else 12000):
        d = definition(rng)
        rt.lines = []          # (callbacks of driven instances log into the shared recorder; nothing reads it here)
        b = harness.Built(rt, d)
        sd = spec_def(d)
        try:
            obs = project(DotGraphMachine(b.cls)())
        except Exception as e:  # noqa: BLE001
            chk.report({"kind": "diagram_failed", "what": "class", "error": type(e).__name__},
                       f"DotGraphMachine(class) raised {type(e).__name__}: {str(e)[:100]}", {"definition": d})
            continue
        items.append((d, "", obs, "class"))
        cases.append({"d": sd, "cur": ""})
        sm = b.cls()
        kept = DotGraphMachine(sm)         # ONE diagram object, asked again and again while the machine moves on
        rt.gv = {g: True for g in gen.GNAMES}
        rt.gv["none"] = True
        for s in d["states"]:
            value = harness.decode_value(s["value"]) if s.get("value") is not None else s["id"]
            for how in ("placed", "kept", "driven", "started"):
                if how in ("placed", "kept"):
                    sm.current_state_value = value
                    inst = sm
                elif how == "started":
                    try:     # an instance whose life began in this state (start_value): the picture is of the MACHINE
                        inst = b.cls(start_value=value)
                    except Exception:  # noqa: BLE001
                        continue
                else:
                    try:
                        inst = drive(rng, b.cls, d, s["id"])
                    except Exception:  # noqa: BLE001 - an unless guard blocks the path: placing is enough
                        inst = None
                    if inst is None:
                        continue
                try:
                    obs = project(kept() if how == "kept" else inst._graph())
                except Exception as e:  # noqa: BLE001
                    chk.report({"kind": "diagram_failed", "what": "instance", "error": type(e).__name__, "how": how,
                                "values": d["value_scheme"]},
                               f"sm._graph() raised {type(e).__name__}: {str(e)[:100]}", {"definition": d, "cur": s["id"]})
                    continue
                items.append((d, s["id"], obs, "instance " + how))
                cases.append({"d": sd, "cur": s["id"]})
    res, st = tlc.eval_batch("Eval_Diagram.tla", cases, shards=10)
    chk.coverage["tlc_cases_evaluated"] = len(cases)
    distinct = set()
    chk.coverage["instances_reached_by_events"] = sum(1 for it in items if it[3] == "instance driven")
    chk.coverage["instances_in_falsy_valued_state"] = sum(
        1 for (d, cur, _o, _w) in items
        if cur and any(x["id"] == cur and x.get("value") is not None and not harness.decode_value(x["value"]) for x in d["states"]))
    for (d, cur, obs, what), r in zip(items, res):
        want = r["dia"]
        distinct.add((len(d["states"]), len(d["trans"]), cur != "", sum(1 for t in d["trans"] if t["internal"])))
        diffs = []
        if obs["nodes"] != want["nodes"]:
            diffs.append(("nodes", want["nodes"], obs["nodes"]))
        if obs["initial"] != want["initial"]:
            diffs.append(("initial edge", want["initial"], obs["initial"]))
        key = lambda e: (e["src"], e["tgt"], e["evs"], e["guards"])  # noqa: E731 - edges are a bag (pydot groups them by endpoints)
        if sorted(obs["edges"], key=key) != sorted(want["edges"], key=key):
            diffs.append(("edges", want["edges"], obs["edges"]))
        if obs["internal"] != want["internal"]:
            diffs.append(("internal transitions listed in states", want["internal"], obs["internal"]))
        if diffs:
            part, w, o = diffs[0]
            falsy = any(not (harness.decode_value(x["value"]) if x.get("value") is not None else x["id"])
                        for x in d["states"] if x["id"] == cur)
            chk.report({"kind": "diagram_mismatch", "part": part, "what": what, "values": d["value_scheme"],
                        "current_value_falsy": falsy},
                       f"diagram of {what} (current state {cur or 'none'}): {part}: specification {str(w)[:260]} drawn {str(o)[:260]}",
                       {"definition": d, "cur": cur, "expected": want, "observed": obs})
        elif len(chk.samples) < 2:
            chk.add_sample({"states": d["states"], "trans": d["trans"], "cur": cur, "diagram": obs})
    chk.coverage.update({"evaluations": len(cases), "distinct_nontrivial": len(distinct), "exhaustive": False,
                         "rule": ("random definitions of 1-5 states / up to 12 transitions (guards as cond and unless, multi-event, self, "
                                  "internal, parallel transitions, final states; state values of every kind incl. falsy ones, shared "
                                  "display names); the class and an instance in every state as current state, placed through the "
                                  "setter (drawn through a fresh diagram object and through one kept for the whole walk), reached by real events and started there with start_value; distinct = (#states, #transitions, class-or-instance, #internal transitions)")})
    return chk.finish()
