"""C12 - listeners and the model are first-class callback providers, attached once.

Model: every abstract callback names its provider; PendingFor only yields callbacks whose provider is in the
instance's provider SET (`provs`), AddListener is set union (idempotent), a callback name present on several
providers is one abstract callback per provider (all are called; for guards all must hold), providers belong to
one instance (frame condition PropIsolation; the trace additionally checks that the provider object invoked
belongs to the instance being processed).
Binding: callback names distributed over machine / model / constructor listeners / late listeners, the same name
on several providers, repeated attachment at random points, two instances of one class with different
listeners, sync and async listener methods; per-provider begin/end lines validated against the spec.
"""
import copy
import random

import enginecheck as ec
import framework
import gen

EVS = ["alpha", "beta", "gamma", "delta"]
POOL = ["sm", "model", "l1", "l2", "l3", "l4"]


def registered(d, cb):
    """Mirror of Registered() in Engine.tla: a naming-convention callback of an event that no transition
    carries is never registered."""
    return cb["okind"] != "E" or any(cb["owner"] in t["evs"] for t in d["trans"])


def scenario(rng, findings=False):
    """findings=True keeps the shapes of the known findings F5/F7/F14/F17 (a few dedicated scenarios);
    otherwise those shapes are avoided so that every trace is checked to its end."""
    coro = rng.choice([0.0, 0.0, 0.0, 0.5])
    scn = gen.rand_engine_scenario(
        rng, nested=0.2, fail=0.0, dense=rng.choice([0.5, 0.9]), guards=True, guard_p=0.4, validators=False,
        coro=coro, yields=0, nsends=0, unknown=(), events=EVS, provs=["sm"], styles=False)
    d = scn["classes"][0]
    # redistribute over the provider pool and clone some names onto further providers
    extra = []
    for c, cb in enumerate(d["cbs"], start=1):
        cb["prov"] = rng.choice(POOL)
        cb["style"] = "convention" if cb["okind"] in ("E", "GT", "GS") else rng.choice(
            ["name", "convention"] if cb["okind"] == "S" else ["name"])
        if cb["style"] == "name":
            cb["name"] = f"shared{c}_{cb['group']}"
        if rng.random() < 0.35:
            if cb["group"] == "cond" and not findings:
                if not cb["expected"]:
                    continue            # F17: an `unless` name on several providers
                cb["coro"] = False      # F5: a guard name on several providers, some of them coroutines
            for p in rng.sample(POOL, rng.randint(1, 2)):
                if p != cb["prov"]:
                    cl = copy.deepcopy(cb)
                    cl["prov"] = p
                    if cl["group"] == "cond":
                        cl["gname"] = rng.choice(gen.GNAMES)
                    extra.append(cl)
    d["cbs"] += extra
    # one callback per (provider, attribute name, owner, group)
    seen, cbs = set(), []
    import harness
    for c, cb in enumerate(d["cbs"], start=1):
        nm = cb.get("name") if cb["style"] == "name" else harness.cb_name(c, dict(cb, style="convention"))
        key = (cb["prov"], nm, cb["okind"], cb["owner"], cb["tix"], cb["group"])
        if key in seen:
            continue
        seen.add(key)
        cbs.append(cb)
    d["cbs"] = cbs
    for k, cb in enumerate(d["cbs"], start=1):
        if cb["group"] in ("before", "on") and cb.get("ret", "none") != "none":
            cb["ret"] = f"r{k}"
    has_coro = any(cb["coro"] for cb in d["cbs"])
    base_opt = scn["steps"][0]["opt"]
    if has_coro:
        base_opt["rtc"] = True
    used = sorted({cb["prov"] for cb in d["cbs"]} - {"sm"})
    # name references must resolve at construction on some provider: attach every provider that carries a
    # name-style callback at construction; convention-only providers may come late
    # (a name provided by several objects needs only ONE of them at construction: the others may be late)
    by_name = {}
    for cb in d["cbs"]:
        if cb["style"] == "name":
            by_name.setdefault(cb["name"], []).append(cb["prov"])
    must = set()
    for nm, ps in by_name.items():
        if "sm" in ps:
            continue
        must.add(rng.choice(sorted(set(ps))))
    steps = []
    ninst = rng.choice([1, 1, 2])
    late = {}
    for i in range(1, ninst + 1):
        ctor = ["sm"] + sorted(must) + [p for p in used if p not in must and rng.random() < 0.5]
        if i == 2:
            ctor = ["sm"] + sorted(must) + [p for p in used if p not in must and rng.random() < 0.3]
        late[i] = [p for p in used if p not in ctor and p != "model"]
        steps.append({"op": "new", "i": i, "cls": 1, "opt": dict(base_opt), "stored": "", "provs": ctor,
                      "gv": gen.rand_gv(rng)})
        guard_provs = {cb["prov"] for cb in d["cbs"] if cb["group"] == "cond"}
        late[i] += [p for p in ctor if p not in ("sm", "model") and rng.random() < 0.5
                    and (findings or p not in guard_provs)]   # re-attachment (F14: of a guard provider)
        ctor_async = any(cb["coro"] and cb["prov"] in ctor and registered(d, cb) for cb in d["cbs"])
        if not findings and not ctor_async:
            # F7: a listener with coroutine methods added late to a machine that runs the sync engine
            late[i] = [p for p in late[i] if not any(cb["coro"] and cb["prov"] == p for cb in d["cbs"])]
    for _ in range(rng.randint(4, 14)):
        i = rng.randint(1, ninst)
        if late[i] and rng.random() < 0.3:
            p = rng.choice(late[i])
            if rng.random() < 0.4 and len(late[i]) > 1:
                # several listeners in ONE call, possibly an already attached one first
                ps = rng.sample(late[i], rng.randint(2, min(3, len(late[i]))))
                steps.append({"op": "call", "i": i, "api": "add_listener", "v": ps})
            else:
                steps.append({"op": "call", "i": i, "api": "add_listener", "v": p})
            if rng.random() < 0.5:
                steps.append({"op": "call", "i": i, "api": "add_listener", "v": p})
        else:
            steps.append({"op": "call", "i": i, "api": rng.choice(["send", "event"]),
                          "ev": rng.choice(d["evlist"]), "gv": gen.rand_gv(rng)})
    scn["steps"] = steps
    if has_coro:
        scn["driver"] = rng.choice(["sync", "inloop"])
    # "any object": listeners that are value-like (all compare and hash equal) or unhashable (a plain @dataclass)
    scn["listener_kind"] = rng.choice(["attr", "attr", "equal", "unhashable", "proxy", "prop_handlers"])
    return scn


def featurize(scn, res, v):
    lines = res["lines"]
    k = v["matched"]
    nxt = lines[k] if k < len(lines) else {}
    d = scn["classes"][0]
    readded = False
    seen = {}
    late_async = False
    for ln in lines[:k + 1]:
        if ln["e"] == "new":
            seen[ln["i"]] = set(ln["provs"])
            ctor_async = any(cb["coro"] and cb["prov"] in seen[ln["i"]] and registered(d, cb) for cb in d["cbs"])
        if ln["e"] == "call" and ln["api"] == "add_listener":
            for pv in ln.get("vs") or [ln["v"]]:
                if pv in seen.get(ln["i"], set()):
                    readded = True
                seen.setdefault(ln["i"], set()).add(pv)
                if any(cb["coro"] and cb["prov"] == pv and registered(d, cb) for cb in d["cbs"]) and not ctor_async:
                    late_async = True
    # the transition whose guards were being evaluated when the execution left the specification
    start = max((j for j, ln in enumerate(lines[:k + 1]) if ln["e"] == "call"), default=0)
    slot = lines[start].get("i", 1)
    attached = seen.get(slot, set())
    tixs = {d["cbs"][ln["c"] - 1]["tix"] for ln in lines[start:k + 1]
            if ln["e"] == "B" and d["cbs"][ln["c"] - 1]["group"] == "cond"}
    multi_coro = multi_unless = False
    for t in tixs:
        by_name = {}
        for cb in d["cbs"]:
            if cb["group"] == "cond" and cb["tix"] == t and cb["prov"] in attached | {"sm"}:
                by_name.setdefault(cb["name"], []).append(cb)
        for nm, lst in by_name.items():
            if len(lst) >= 2:
                multi_coro |= any(cb["coro"] for cb in lst)
                multi_unless |= any(not cb["expected"] for cb in lst)
    # F5 at construction: every coroutine callback the constructor sees is a guard whose name several providers carry
    ctor = set(scn["steps"][0]["provs"]) | {"sm"}
    coros = [cb for cb in d["cbs"] if cb["coro"] and cb["prov"] in ctor and registered(d, cb)]
    def shared_guard(cb):
        return cb["group"] == "cond" and sum(1 for x in d["cbs"] if x["group"] == "cond" and x["tix"] == cb["tix"]
                                             and x.get("name") == cb.get("name") and x["prov"] in ctor) >= 2
    only_multi = bool(coros) and all(shared_guard(cb) for cb in coros)
    dup_guard = False
    if nxt.get("e") == "B":
        cb = d["cbs"][nxt["c"] - 1]
        dup_guard = cb["group"] == "cond" and any(
            ln["e"] == "B" and ln["c"] == nxt["c"] for ln in lines[max(0, k - 12):k])
    return {"listener_kind": scn.get("listener_kind", "attr"), "coroutines_only_in_multi_provider_guards": only_multi,
            "listener_reattached": readded, "duplicate_guard_begin": dup_guard, "late_async_listener": late_async,
            "multi_provider_coroutine_guard": multi_coro, "multi_provider_unless": multi_unless}


def run(pid, tier, seed, replay):
    chk = framework.Check(pid, tier, seed)
    if replay:
        rc = ec.replay_file(chk, replay, featurize=featurize)
        chk.finish()
        return rc
    rng = random.Random(12000 + seed)
    quick = tier == "quick"
    fam = []
    for _ in range(3 if quick else 15):
        m = gen.family_member(rng, nstates=2, dense=0.9, guards=True, validators=False, nested=False, max_cbs=5,
                              provs=("sm", "model", "l1"))
        fam.append(m)
    consts = {"NI": 1, "MaxCalls": 2, "MaxFails": 0, "MaxActs": 0}
    _cov, hs = ec.mc_run(chk, fam, consts, required=("MCBegin", "MCEnd", "MCAssign"), label="provider family", hist_limit=800 if quick else 10000)
    ec.run_validate(chk, hs, "providers: spec-behaviour replay", shards=4 if quick else 12, featurize=featurize)
    ec.run_validate(chk, [scenario(rng) for _ in range(1500 if quick else 25000)], "providers: random histories",
                    shards=4 if quick else 12, featurize=featurize)
    ec.run_validate(chk, [scenario(rng, findings=True) for _ in range(150 if quick else 1200)],
                    "providers: shapes of the known findings", shards=2 if quick else 6, featurize=featurize)
    chk.coverage["rule"] = ("callback names distributed over machine/model/2 constructor listeners/2 late listeners, 35% of names cloned "
                            "onto further providers (guards with their own valuation), repeated add_listener, 1-2 instances of one class "
                            "with different listeners, sync and async listener methods; listener objects plain, value-like (all equal), unhashable, or forwarding proxies (__getattr__ + __dir__)")
    return chk.finish()
