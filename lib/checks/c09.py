"""C09 - class-definition validation accepts exactly the well-formed machines.

Model: Validate.tla - Verdict(g, strict) over directed multigraphs with initial/final flags, internal flags and
from_.any() edges: reasons of rejection (internal not a self-transition, no events, not exactly one initial state,
transition leaving a final state, unreachable state) and the strict-or-warn conditions (trap state, no path to a
final state), with Reach as the transitive closure over directed transitions.  TLC evaluates Verdict for every
graph of the enumerated space.
Binding: the class statement of every graph is executed for real under warnings.catch_warnings; the observed
outcome (accepted / InvalidDefinition / other exception, warning kinds and the states they name) must equal the
spec's verdict.  Both directions of the `iff` are covered because every graph's verdict is compared.
Exhaustive: all graphs over 1-3 states (every initial/final flag assignment, every edge set incl. self loops) x
strict on/off; thorough adds all 4-state graphs with a fixed initial state, sampled 5-state graphs; both tiers add
sampled graphs with doubled edges, internal flags and from_.any().
"""
import itertools
import random
import sys
import warnings

import framework
import tlc

import paths  # noqa: E402
sys.path.insert(0, paths.REPO)


def graphs_exhaustive(n):
    ids = [f"s{k}" for k in range(n)]
    pairs = [(a, b) for a in ids for b in ids]
    for init in itertools.product([False, True], repeat=n):
        for fin in itertools.product([False, True], repeat=n):
            for mask in range(1 << len(pairs)):
                edges = [{"src": a, "tgt": b, "internal": False} for k, (a, b) in enumerate(pairs) if mask >> k & 1]
                yield {"states": [{"id": s, "initial": i, "final": f} for s, i, f in zip(ids, init, fin)], "edges": edges}


def graphs_fixed_initial(n, rng, limit=None):
    """n states, s0 the only initial one (symmetry), every final set and edge set (optionally sampled)."""
    ids = [f"s{k}" for k in range(n)]
    pairs = [(a, b) for a in ids for b in ids]
    total = (1 << (n - 0)) * (1 << len(pairs))
    if limit is None or limit >= total:
        space = ((fin, mask) for fin in range(1 << n) for mask in range(1 << len(pairs)))
    else:
        space = ((rng.randrange(1 << n), rng.randrange(1 << len(pairs))) for _ in range(limit))
    for fin, mask in space:
        edges = [{"src": a, "tgt": b, "internal": False} for k, (a, b) in enumerate(pairs) if mask >> k & 1]
        yield {"states": [{"id": s, "initial": k == 0, "final": bool(fin >> k & 1)} for k, s in enumerate(ids)],
               "edges": edges}


def graph_special(rng):
    n = rng.randint(1, 4)
    ids = [f"s{k}" for k in range(n)]
    states = [{"id": s, "initial": (k == 0) if rng.random() < 0.85 else rng.random() < 0.5, "final": rng.random() < 0.3}
              for k, s in enumerate(ids)]
    edges = []
    for _ in range(rng.randint(0, 6)):
        a, b = rng.choice(ids), rng.choice(ids)
        internal = rng.random() < 0.25 and (a == b or rng.random() < 0.2)
        edges.append({"src": a, "tgt": b, "internal": internal})
        if rng.random() < 0.3:
            edges.append({"src": a, "tgt": b, "internal": False})   # doubled edge
    if rng.random() < 0.4:
        edges.append({"src": "*", "tgt": rng.choice(ids), "internal": False})
    return {"states": states, "edges": edges}


def define(g, strict, via="flat"):
    """Execute the class statement; returns (outcome, warning kinds, named states).  via="subclass": the states and
    transitions are declared on a lenient base class and the class under test is `class G(Base, strict_states=...)` with an
    empty body - the same machine, so the same verdict (and its own warnings)."""
    from statemachine import State, StateMachine
    from statemachine.exceptions import InvalidDefinition
    from statemachine.factory import StateMachineMetaclass
    attrs = {"__module__": "vmod_c09"}
    states = {}
    for s in g["states"]:
        states[s["id"]] = State(initial=s["initial"], final=s["final"])
        attrs[s["id"]] = states[s["id"]]
    with warnings.catch_warnings(record=True) as w:
        warnings.simplefilter("always")
        try:
            tl = None
            # any() is expanded when the event attribute is processed: keep it after the states
            for e in g["edges"]:
                if e["src"] == "*":
                    t = states[e["tgt"]].from_.any()
                else:
                    kw = {"internal": True} if e["internal"] else {}
                    t = states[e["src"]].to(states[e["tgt"]], **kw)
                tl = t if tl is None else (tl | t)
            if tl is not None:
                attrs["go"] = tl
            kwargs = {"strict_states": True} if strict else {}
            if via == "subclass":
                base = StateMachineMetaclass("GBase", (StateMachine,), attrs)
                del w[:]
                cls = StateMachineMetaclass("G", (base,), {"__module__": "vmod_c09"}, **kwargs)
            else:
                cls = StateMachineMetaclass("G", (StateMachine,), attrs, **kwargs)
            if not g["edges"] and getattr(cls, "_abstract", False):
                return "abstract", set(), {}
            outcome = "accept"
        except InvalidDefinition as e:
            outcome = "reject"
            msg = str(e)
        except Exception as e:  # noqa: BLE001
            outcome = "other:" + type(e).__name__
            msg = str(e)
    kinds, named = set(), {}
    for x in w:
        m = str(x.message)
        if "no outgoing transition" in m:
            kinds.add("trap")
            named["trap"] = m
        elif "no path to a final state" in m:
            kinds.add("nopath")
            named["nopath"] = m
        else:
            kinds.add("other:" + m[:40])
    if outcome != "accept":
        named["error"] = msg
    return outcome, kinds, named


def run(pid, tier, seed, replay):
    chk = framework.Check(pid, tier, seed)
    quick = tier == "quick"
    rng = random.Random(9000 + seed)
    if replay:
        import json
        rep = json.load(open(replay))["replay"]
        print(json.dumps(rep, indent=1)[:2000])
        print("now:", define(rep["graph"], rep["strict"], rep.get("via", "flat")))
        return 1
    cases = []
    for n in (1, 2, 3):
        for g in graphs_exhaustive(n):
            for strict in (False, True):
                cases.append({"g": g, "strict": strict, "origin": f"exhaustive{n}"})
    nexh = len(cases)
    if quick:
        for g in graphs_fixed_initial(4, rng, limit=6000):
            cases.append({"g": g, "strict": rng.random() < 0.5, "origin": "sample4"})
    else:
        for g in graphs_fixed_initial(4, rng):
            for strict in (False, True):
                cases.append({"g": g, "strict": strict, "origin": "exhaustive4_fixed_initial"})
        for g in graphs_fixed_initial(5, rng, limit=150000):
            cases.append({"g": g, "strict": rng.random() < 0.5, "origin": "sample5"})
    for _ in range(4000 if quick else 60000):
        cases.append({"g": graph_special(rng), "strict": rng.random() < 0.5, "origin": "special"})
    # the same machine declared on a lenient base class and checked as `class G(Base, strict_states=...)`: same verdict
    for c in cases[nexh:]:
        c["via"] = "subclass" if rng.random() < 0.3 else "flat"
    res, st = tlc.eval_batch("Eval_Validate.tla", [{"g": c["g"], "strict": c["strict"]} for c in cases], shards=15,
                             timeout=3000)
    chk.coverage["tlc_cases_evaluated"] = len(cases)
    distinct = set()
    by_reason = {}
    for c, v in zip(cases, res):
        g = c["g"]
        outcome, kinds, named = define(g, c["strict"], c.get("via", "flat"))
        by_reason[v["reason"] or "accepted"] = by_reason.get(v["reason"] or "accepted", 0) + 1
        distinct.add(v["reason"] + "|" + str(v["warn_trap"]) + str(v["warn_nopath"]) + "|" + str(len(g["states"])) + "|" + str(len(g["edges"])))
        if not g["edges"] and not v["accept"] and outcome in ("abstract",):
            # no states-with-events: the library treats a class without any event AND without states as abstract;
            # with states but no events it must reject
            pass
        want = "accept" if v["accept"] else "reject"
        want_kinds = ({"trap"} if v["warn_trap"] else set()) | ({"nopath"} if v["warn_nopath"] else set())
        ok = outcome == want and (outcome != "accept" or kinds == want_kinds)
        if ok and outcome == "accept":
            for kind, ids in (("trap", v["traps"]), ("nopath", v["nopath"])):
                if kind in kinds and not all(repr(s) in named[kind] for s in ids):
                    ok = False
        if not ok:
            chk.report({"kind": "verdict_mismatch", "spec": want + ":" + v["reason"], "observed": outcome,
                        "origin": c["origin"], "via": c.get("via", "flat"), "has_any": any(e["src"] == "*" for e in g["edges"]),
                        "warn_spec": sorted(want_kinds), "warn_observed": sorted(kinds)},
                       f"class over {[(s['id'], 'I' if s['initial'] else '', 'F' if s['final'] else '') for s in g['states']]} "
                       f"edges {[(e['src'], e['tgt'], 'int' if e['internal'] else '') for e in g['edges']]} strict={c['strict']}: "
                       f"observed {outcome} warnings {sorted(kinds)} {named.get('error', '')[:80]}; specification {want} "
                       f"({v['reason']}) warnings {sorted(want_kinds)} traps={v['traps']} nopath={v['nopath']}",
                       {"graph": g, "strict": c["strict"], "via": c.get("via", "flat"), "verdict": v})
        elif len(chk.samples) < 3 and c["origin"] == "special":
            chk.add_sample({"states": g["states"], "edges": g["edges"], "strict": c["strict"], "verdict": v})
    chk.coverage.update({
        "evaluations": len(cases), "distinct_nontrivial": len(distinct), "exhaustive": True,
        "exhaustive_part": nexh, "verdict_distribution": by_reason,
        "rule": ("exhaustive: every graph over 1-3 states (all initial/final flag assignments x all edge sets incl. self loops) x strict; "
                 "quick adds 6000 sampled 4-state graphs, thorough all 4-state graphs with s0 initial and 150000 sampled 5-state graphs; plus "
                 "graphs with doubled edges, declaration on a lenient base class with the class under test an empty subclass (30%), internal flags (on self and non-self transitions) and from_.any(); distinct = (verdict, warnings, "
                 "#states, #edges) classes")})
    return chk.finish()
