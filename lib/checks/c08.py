"""C08 - guards: cond/unless conjunction and Python-faithful boolean expressions.

Model: GuardExpr.tla - typed values, AST, Eval (left-to-right short-circuit, operand values, chained
comparisons, read order), Enabled (every cond truthy and every unless falsy), Render (token sequence by Python's
precedence, minimal and full parentheses), Parse (precedence climbing), RoundTrip (Parse(Render(e)) = e) and
WellFormed.  TLC evaluates these operators for every case (Eval_GuardExpr.tla): tokens, round trip, truthiness and
first-read order per valuation, well-formedness of mutated token sequences.
Self-test of the spec (machinery, not verdicts): its truthiness must equal Python's own eval of the rendered text.
Binding: each token sequence is concretised into strings in every spelling (not/!, and/^, or/v), whitespace mode
(normal, minimal, doubled), with real names that contain `v` or keywords as substrings; names are provided by
machine attribute / property / method, model, listeners (sync; coroutine operands are known finding F5); the
expression is used as cond= and as unless= of a real machine, alone and in lists; observed: fired or not, order of
first reads, exception.  Malformed / unsupported text and unknown names must raise InvalidDefinition at StateMachine().
"""
import itertools
import random
import sys

import framework
import tlc

import paths  # noqa: E402
sys.path.insert(0, paths.REPO)

NONE = {"t": "none", "b": False, "i": 0, "s": ""}


def vb(x):
    return {"t": "bool", "b": x, "i": 0, "s": ""}


def vi(x):
    return {"t": "int", "b": False, "i": x, "s": ""}


def vs(x):
    return {"t": "str", "b": False, "i": 0, "s": x}


NUMVALS = [vi(0), vi(1), vi(2), vb(True), vb(False)]
ANYVALS = NUMVALS + [NONE, vs(""), vs("x")]
NUMLITS = [vi(0), vi(1), vi(2), vb(True), vb(False)]
ANYLITS = NUMLITS + [NONE, vs(""), vs("x")]
CMPS = ["==", "!=", "<", "<=", ">", ">="]
NAMES = ["a", "b", "c"]
REAL_NAMES = ["valve", "never", "v2", "is_v", "orb", "band", "notice", "av", "x_v_y", "nor", "android", "inv"]


def pyval(v):
    return {"none": None, "bool": v["b"], "int": v["i"], "str": v["s"]}[v["t"]] if v["t"] != "none" else None


def gen_ast(rng, depth, env, numeric=False):
    """Random expression; numeric=True: value is guaranteed to be int/bool (usable under <,<=,>,>=)."""
    r = rng.random()
    if depth == 0 or r < 0.25:
        if rng.random() < 0.7:
            pool = [n for n in NAMES if env[n] == "num"] if numeric else NAMES
            if pool:
                return {"k": "name", "n": rng.choice(pool)}
        return {"k": "lit", "v": rng.choice(NUMLITS if numeric else ANYLITS)}
    if r < 0.40:
        return {"k": "not", "e": gen_ast(rng, depth - 1, env)}
    if r < 0.75:
        k = "and" if rng.random() < 0.5 else "or"
        return {"k": k, "l": gen_ast(rng, depth - 1, env, numeric), "r": gen_ast(rng, depth - 1, env, numeric)}
    nops = 1 if rng.random() < 0.7 else 2
    ops = [rng.choice(CMPS) for _ in range(nops)]
    need_num = any(o not in ("==", "!=") for o in ops)
    operands = [gen_ast(rng, max(0, depth - 2), env, need_num) for _ in range(nops + 1)]
    return {"k": "cmp", "first": operands[0], "ops": ops, "rest": operands[1:]}


def small_asts():
    """Every expression with up to 3 leaves over a, b and the literals True, 0 (exhaustive small scope)."""
    leaves = [{"k": "name", "n": "a"}, {"k": "name", "n": "b"}, {"k": "lit", "v": vb(True)}, {"k": "lit", "v": vi(0)}]
    lvl1 = list(leaves)
    lvl1 += [{"k": "not", "e": x} for x in leaves]
    for k in ("and", "or"):
        lvl1 += [{"k": k, "l": x, "r": y} for x in leaves for y in leaves]
    for op in CMPS:
        lvl1 += [{"k": "cmp", "first": x, "ops": [op], "rest": [y]} for x in leaves[:3] for y in leaves[:3]]
    lvl2 = []
    binary = [x for x in lvl1 if x["k"] in ("and", "or", "not", "cmp")]
    for k in ("and", "or"):
        for x in binary[::3]:
            for y in leaves[:2]:
                lvl2.append({"k": k, "l": x, "r": y})
                lvl2.append({"k": k, "l": y, "r": x})
    lvl2 += [{"k": "not", "e": x} for x in binary]
    for op1, op2 in itertools.product(["<", "==", ">="], repeat=2):
        lvl2.append({"k": "cmp", "first": leaves[0], "ops": [op1, op2], "rest": [leaves[1], leaves[0]]})
    return lvl1 + lvl2


def valuations(rng, env, k):
    out = []
    for _ in range(k):
        out.append({n: rng.choice(NUMVALS if env[n] == "num" else ANYVALS) for n in NAMES})
    return out


# ---- concretisation -------------------------------------------------------------------------
def concretise(tokens, names, spelling, ws):
    """Token sequence -> source text.  spelling: dict op -> chosen spelling; ws: normal | minimal | doubled.
    Symbolic tokens (^ ! parentheses, comparison operators) need no surrounding blanks; word tokens (names,
    literals, not/and/or/v) are separated from each other by at least one blank."""
    parts = []
    for t in tokens:
        if t in NAMES:
            parts.append((names[t], False))
        elif t == "not":
            parts.append((spelling["not"], spelling["not"] == "!"))
        elif t in ("and", "or"):
            parts.append((spelling[t], spelling[t] == "^"))
        elif t in ("(", ")") or t in CMPS:
            parts.append((t, True))
        else:
            parts.append((t, False))
    out = ""
    prev = None
    for txt, symbolic in parts:
        if prev is None:
            sep = ""
        elif ws == "doubled":
            sep = "  "
        elif ws == "minimal":
            sep = "" if (symbolic or prev[1]) else " "
        else:
            sep = "" if (prev[0] in ("!", "(") or txt == ")") else " "
        out += sep + txt
        prev = (txt, symbolic)
    return out


PROVIDER_KINDS = ["sm_prop", "sm_method", "sm_attr", "model_method", "model_attr", "listener_method", "listener_prop",
                  "helper_method", "free_function"]


DECLS = ["itself", "to", "from", "any", "any_or", "to_or"]


def build_machine(exprs, names, kinds, coro=(), decl="itself"):
    """Single state with a self transition `go`; exprs: [(text, expected)].  Returns (cls, model, listener, log, box)."""
    from statemachine import State, StateMachine
    from statemachine.factory import StateMachineMetaclass
    log = []
    box = {}

    def reader(abstract):
        def get(self_=None, *a, **k):
            log.append(abstract)
            return box[abstract]
        return get

    def areader(abstract):
        async def get(self_=None, *a, **k):
            log.append(abstract)
            return box[abstract]
        return get

    sm_attrs, model_attrs, lis_attrs = {}, {}, {}
    plain = []
    helper_names = []
    free_names = []
    for n in NAMES:
        box[n] = 0
    for n in NAMES:
        kind, real = kinds[n], names[n]
        f = areader(n) if n in coro else reader(n)
        if kind == "sm_prop":
            sm_attrs[real] = property(f)
        elif kind == "sm_method":
            sm_attrs[real] = f
        elif kind == "sm_attr":
            plain.append(("sm", n, real))
            sm_attrs[real] = None      # (not filled in yet at construction)
        elif kind == "model_method":
            model_attrs[real] = f
        elif kind == "model_attr":
            plain.append(("model", n, real))
            model_attrs[real] = None
        elif kind == "listener_method":
            lis_attrs[real] = f
        elif kind == "listener_prop":
            lis_attrs[real] = property(f)
        elif kind == "free_function":
            # an entry that is exactly this name is given as a free FUNCTION of that name; the model happens to have a
            # method of the same name that says the opposite (inside larger expressions the name is a machine method)
            sm_attrs[real] = f
            import re as _re
            inside = any(isinstance(t, str) and t != real and _re.search(r"(?<![A-Za-z0-9_])" + _re.escape(real) + r"(?![A-Za-z0-9_])", t)
                         for t, _e in exprs)
            if not inside:      # (a name used inside an expression is looked up on every provider: keep that case apart)
                del sm_attrs[real]
                free_names.append((n, real))

                def opposite(self_, *a, _n=n, **k):
                    log.append("!" + _n)
                    return not box[_n]
                model_attrs[real] = opposite
        elif kind == "helper_method":
            # an entry that is exactly this name is given as a CALLABLE: the bound method of a helper object that keeps
            # the value in its own attributes (inside larger expressions the name resolves to a method of the machine)
            sm_attrs[real] = f
            helper_names.append((n, real))
    if free_names:
        def free(abstract, real):
            def fn(*a, **k):
                log.append(abstract)
                return box[abstract]
            fn.__name__ = real
            fn.__qualname__ = real
            return fn
        table = {real: free(n, real) for n, real in free_names}
        exprs = [((table[t] if isinstance(t, str) and t in table else t), e) for t, e in exprs]
    helper = None
    if helper_names:
        def hmethod(abstract):
            def get(self_, *a, **k):
                log.append(abstract)
                return self_.vals[abstract]
            return get
        helper = type("GHelper", (), {real: hmethod(n) for n, real in helper_names})()
        helper.vals = {n: 0 for n, _ in helper_names}
        box["__helper__"] = helper
        by_real = {real: n for n, real in helper_names}
        exprs = [((getattr(helper, t) if t in by_real else t), e) for t, e in exprs]
    s0 = State(initial=True)
    conds = [t for t, e in exprs if e]
    unless = [t for t, e in exprs if not e]
    kw = {}
    if conds:
        kw["cond"] = conds if len(conds) > 1 else conds[0]
    if unless:
        kw["unless"] = unless if len(unless) > 1 else unless[0]
    # the same guarded self transition, declared in every documented way
    if decl == "to":
        go = s0.to(s0, **kw)
    elif decl == "from":
        go = s0.from_(s0, **kw)
    elif decl == "any":
        go = s0.from_.any(**kw)
    elif decl == "any_or":
        go = s0.from_.any(**kw) | s0.to.itself(cond="never_true_c08")     # the guarded one comes first
    elif decl == "to_or":
        go = s0.to(s0, **kw) | s0.to.itself(cond="never_true_c08")
    else:
        go = s0.to.itself(**kw)
    attrs = {"s0": s0, "go": go, "never_true_c08": False, "__module__": "vmod_c08"}
    attrs.update(sm_attrs)
    cls = StateMachineMetaclass("GuardM", (StateMachine,), attrs)
    model = type("GModel", (), dict(model_attrs, state=None))()
    listener = type("GListener", (), lis_attrs)()
    return cls, model, listener, log, box, plain


def set_values(sm, model, plain, box, val):
    for n in NAMES:
        box[n] = pyval(val[n])
    if "__helper__" in box:
        for n in box["__helper__"].vals:
            box["__helper__"].vals[n] = box[n]
    for where, n, real in plain:
        setattr(sm if where == "sm" else model, real, box[n])


INVALID_TEXTS = ["a and", "and a", "(a", "a)", "a b", "a + b", "a is b", "a if b else c", "a()", "a.b", "a[0]",
                 "a and (", "not", "a or or b", "a <", "< a", "a = b", "a === b", "lambda: a", "a, b", "a; b",
                 "a and\nb #", "a @ b", "a ** 2 and b", "a in b", "a not in b", "~a", "-a", "a << 1"]


def run(pid, tier, seed, replay):
    chk = framework.Check(pid, tier, seed)
    quick = tier == "quick"
    rng = random.Random(8000 + seed)
    if replay:
        import json
        rep = json.load(open(replay))["replay"]
        print(json.dumps(rep, indent=1)[:3000])
        return 1
    from statemachine.exceptions import InvalidDefinition, TransitionNotAllowed
    import warnings
    warnings.simplefilter("ignore", RuntimeWarning)   # "never awaited" of the known finding F5

    # ---- cases --------------------------------------------------------------------------------
    cases = []
    for e in small_asts():
        env = {"a": "num", "b": "num", "c": "num"}
        cases.append({"e": e, "vals": [dict(zip(NAMES, v)) for v in
                                       itertools.product([vi(0), vi(1), vb(True)], [vi(0), vi(2), vb(False)], [vi(1)])],
                      "env": env, "origin": "small"})
    nsmall = len(cases)
    for _ in range(900 if quick else 12000):
        env = {n: rng.choice(["num", "any"]) for n in NAMES}
        e = gen_ast(rng, rng.randint(1, 3), env)
        cases.append({"e": e, "vals": valuations(rng, env, 6 if quick else 12), "env": env, "origin": "random"})
    glists = []
    for _ in range(250 if quick else 3000):
        env = {n: rng.choice(["num", "any"]) for n in NAMES}
        guards = [{"e": gen_ast(rng, rng.randint(0, 2), env), "expected": rng.random() < 0.6}
                  for _ in range(rng.randint(1, 3))]
        glists.append({"guards": guards, "vals": valuations(rng, env, 6), "env": env})
    # token-level mutations of well-formed sequences (the spec decides which are still well formed)
    tlc_in = [{"e": c["e"], "vals": c["vals"]} for c in cases] + [{"guards": g["guards"], "vals": g["vals"]} for g in glists]
    res, st = tlc.eval_batch("Eval_GuardExpr.tla", tlc_in, shards=12)
    exprs = res[:len(cases)]
    gres = res[len(cases):]
    bad_rt = [r for r in exprs if not r["roundtrip"]]
    if bad_rt:
        raise tlc.MachineryError(f"spec self-check failed: Parse(Render(e)) # e for {len(bad_rt)} expressions, e.g. {bad_rt[0]['toks']}")
    muts = []
    for r in rng.sample(exprs, min(len(exprs), 250 if quick else 2500)):
        toks = list(r["toks"])
        how = rng.choice(["drop", "dup", "swap", "insert"])
        k = rng.randrange(len(toks))
        if how == "drop":
            del toks[k]
        elif how == "dup":
            toks.insert(k, toks[k])
        elif how == "swap" and len(toks) > 1:
            j = rng.randrange(len(toks))
            toks[k], toks[j] = toks[j], toks[k]
        else:
            toks.insert(k, rng.choice(["and", "or", "not", "(", ")", "==", "<"]))
        strings = ("''", "'x'")
        if toks and not any(x in strings and y in strings for x, y in zip(toks, toks[1:])):
            muts.append(toks)   # (adjacent string literals are one literal in Python: not a malformed text)
    mres, _ = tlc.eval_batch("Eval_GuardExpr.tla", [{"toks": t} for t in muts], shards=4)
    chk.coverage["tlc_cases_evaluated"] = len(tlc_in) + len(muts)

    # ---- spec self-test against Python's own evaluation (machinery; exit 2 on mismatch) ---------
    for c, r in zip(cases, exprs):
        text = " ".join(r["toks"])
        for val, exp in zip(c["vals"], r["res"]):
            py = eval(text, {}, {n: pyval(val[n]) for n in NAMES})   # noqa: S307 - generated text only
            if bool(py) != exp["truthy"] or py != pyval(exp["v"]) or type(py) is not type(pyval(exp["v"])):
                raise tlc.MachineryError(f"spec self-test: GuardExpr.Eval disagrees with Python on {text!r} {val}: {exp} vs {py!r}")

    # ---- real machines --------------------------------------------------------------------------
    nviol_before = len(chk.violations)
    evaluations = 0
    distinct = set()

    def run_case(texts, vals, expected_enabled, expected_reads, features, sample):
        """texts: [(text, expected_flag)]"""
        nonlocal evaluations
        names = dict(zip(NAMES, rng.sample(REAL_NAMES, 3)))
        kinds = {n: rng.choice(PROVIDER_KINDS) for n in NAMES}
        if features.get("origin") == "guard_list" and rng.random() < 0.25:
            # several entries of one list given as callables that all have the same __name__ (bound methods of helper
            # objects, lambdas): what a callable IS decides, not what it is called
            kinds = {n: "helper_method" for n in NAMES}
        coro = features.get("coro", ())
        concrete = [(concretise_text(t, names), e) for t, e in texts]
        # (F21: the very same entry - a name or an expression text - in cond and in unless of one transition)
        cond_names = {t for t, e in concrete if e}
        unless_names = {t for t, e in concrete if not e}
        features = dict(features, text=concrete[0][0][:80], kinds="/".join(kinds[n] for n in NAMES),
                        no_space_no_bang=any(" " not in t and "!" not in t and not t.isidentifier() for t, _ in concrete),
                        bang_after_word=any(__import__("re").search(r"[A-Za-z0-9_']!(?!=)", t) for t, _ in concrete),
                        same_name_in_cond_and_unless=bool(cond_names & unless_names))
        decl = rng.choice(DECLS)
        features["declared_by"] = decl
        try:
            cls, model, listener, log, box, plain = build_machine(concrete, names, kinds, coro, decl)
            sm = cls(model, listeners=[listener])
        except Exception as ex:  # noqa: BLE001
            chk.report(dict(features, kind="valid_expression_rejected", error=type(ex).__name__),
                       f"well-formed guard {concrete} rejected at definition/instantiation: {type(ex).__name__}: {str(ex)[:120]}",
                       {"texts": concrete, "names": names, "kinds": kinds})
            return
        logging_names = {n for n in NAMES if kinds[n] not in ("sm_attr", "model_attr")}
        for val, en, reads in zip(vals, expected_enabled, expected_reads):
            evaluations += 1
            set_values(sm, model, plain, box, val)
            del log[:]
            try:
                sm.send("go")
                fired = True
            except TransitionNotAllowed:
                fired = False
            except Exception as ex:  # noqa: BLE001
                chk.report(dict(features, kind="exception_at_event", error=type(ex).__name__),
                           f"guard {concrete} raised {type(ex).__name__} when the event arrived: {str(ex)[:100]}",
                           {"texts": concrete, "val": val})
                continue
            first = []
            for n in log:
                if n not in first:
                    first.append(n)
            ok = fired == en
            if reads is not None:
                ok = ok and first == [n for n in reads if n in logging_names]
            if not ok:
                chk.report(dict(features, kind="guard_mismatch", fired=fired, expected=en),
                           f"guard {concrete} under {{{', '.join(f'{n}={pyval(val[n])!r}' for n in NAMES)}}}: fired={fired} "
                           f"reads={first}; specification: enabled={en} first reads={reads}",
                           {"texts": concrete, "names": names, "kinds": kinds, "val": val})
        if sample and len(chk.samples) < 3:
            chk.add_sample({"texts": concrete, "providers": kinds, "valuation": {n: pyval(vals[0][n]) for n in NAMES},
                            "expected_enabled": expected_enabled[0], "expected_first_reads": expected_reads[0]})

    def concretise_text(tok_spec, names):
        toks, spelling, ws = tok_spec
        return concretise(toks, names, spelling, ws)

    variants = []
    for c, r in zip(cases, exprs):
        toksets = [r["toks"]] + ([r["toksfull"]] if rng.random() < 0.3 else [])
        for toks in toksets:
            for _ in range(2 if quick else 4):
                spelling = {"not": rng.choice(["not", "!"]), "and": rng.choice(["and", "^"]), "or": rng.choice(["or", "v"])}
                ws = rng.choice(["normal", "normal", "minimal", "doubled"])
                expected_flag = rng.random() < 0.6
                variants.append((c, r, toks, spelling, ws, expected_flag))
    for c, r, toks, spelling, ws, flag in variants:
        concrete_probe = concretise(toks, dict(zip(NAMES, NAMES)), spelling, ws)
        needs_parse = len(toks) > 1 or toks[0] not in NAMES
        feats = {"needs_parsing": needs_parse, "no_space_no_bang": (" " not in concrete_probe and "!" not in concrete_probe),
                 "origin": c["origin"]}
        distinct.add((tuple(toks), tuple(sorted(spelling.items())), ws, flag))
        run_case([((toks, spelling, ws), flag)], c["vals"], [x["truthy"] == flag for x in r["res"]],
                 [x["reads"] for x in r["res"]], feats, sample=True)
    for g, r in zip(glists, gres):
        spelling = {"not": rng.choice(["not", "!"]), "and": rng.choice(["and", "^"]), "or": rng.choice(["or", "v"])}
        texts = [((r["toks"][k], spelling, "normal"), gd["expected"]) for k, gd in enumerate(g["guards"])]
        feats = {"needs_parsing": True, "no_space_no_bang": False, "origin": "guard_list"}
        run_case(texts, g["vals"], [x["enabled"] for x in r["res"]], [None] * len(g["vals"]), feats, sample=False)
    # coroutine operands inside expressions (known finding F5) and as plain names (must work)
    for _ in range(10 if quick else 100):
        env = {n: "num" for n in NAMES}
        e = {"k": rng.choice(["and", "or"]), "l": {"k": "name", "n": "a"}, "r": {"k": "name", "n": "b"}}
        vals = valuations(rng, env, 4)
        rr, _ = tlc.eval_batch("Eval_GuardExpr.tla", [{"e": e, "vals": vals}], shards=1)
        feats = {"needs_parsing": True, "no_space_no_bang": False, "origin": "coro_operand", "coro": ("a",), "coroutine_operand": True}
        run_case([((rr[0]["toks"], {"not": "not", "and": "and", "or": "or"}, "normal"), True)], vals,
                 [x["truthy"] for x in rr[0]["res"]], [None] * 4, feats, sample=False)

    # ---- text that must be rejected at instantiation ------------------------------------------------
    invalid = [(" ".join(t), "mutation") for t, m in zip(muts, mres) if not m["wf"]]
    invalid += [(t, "unsupported") for t in INVALID_TEXTS]
    invalid += [("a and zzz_unknown", "unknown_name"), ("zzz_unknown", "unknown_name"), ("!zzz_unknown", "unknown_name")]
    ninv = 0
    for text, why in invalid:
        names = dict(zip(NAMES, NAMES))
        kinds = {n: "sm_method" for n in NAMES}
        ninv += 1
        stage = "class"
        try:
            cls, model, listener, log, box, plain = build_machine([(text, True)], names, kinds)
            stage = "instance"
            sm = cls(model, listeners=[listener])
            stage = "event"
            set_values(sm, model, plain, box, {n: vi(1) for n in NAMES})
            try:
                sm.send("go")
                outcome = "accepted_and_fired"
            except TransitionNotAllowed:
                outcome = "accepted_not_fired"
            except Exception as ex:  # noqa: BLE001
                outcome = "error_at_event:" + type(ex).__name__
        except InvalidDefinition:
            continue
        except Exception as ex:  # noqa: BLE001
            outcome = f"{type(ex).__name__}_at_{stage}"
        chk.report({"kind": "invalid_expression_not_rejected", "why": why, "outcome": outcome.split(":")[0],
                    "text": text[:60]},
                   f"invalid guard text {text!r} ({why}): {outcome} instead of InvalidDefinition at instantiation",
                   {"text": text, "why": why, "outcome": outcome})
    chk.coverage.update({
        "evaluations": evaluations + ninv,
        "distinct_nontrivial": len(distinct) + ninv,
        "expressions": len(cases), "exhaustive_small_scope_expressions": nsmall, "guard_lists": len(glists),
        "invalid_texts": ninv, "exhaustive": False,
        "rule": ("exhaustive: every expression with <=3 leaves over a, b, True, 0 x 9 valuations; random: depth<=3 ASTs over a,b,c and the "
                 "literals None/True/False/0/1/2/''/'x', six comparison operators, chains of 2; each in 2-4 renderings (spelling x "
                 "whitespace x minimal/full parentheses) as cond= or unless=, names provided by 7 provider kinds; guard lists of 1-3 "
                 "entries; invalid: token mutations the spec declares ill-formed + unsupported constructs + unknown names. A case is "
                 "distinct by (tokens, spelling, whitespace, cond/unless)")})
    chk.assumptions += ["ordering comparisons are only generated between numeric operands (mixed orderings raise TypeError in Python itself)",
                        "how often a name is re-read inside one chained comparison is not constrained (repository marks it as TODO)"]
    return chk.finish()
