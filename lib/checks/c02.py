"""C02 - callback groups run in the documented order with the documented view of state.

Model: PendingFor/CbApplies (which callbacks belong to which phase of which transition, including the
event scoping of before_/on_/after_<event>, internal transitions, the initial pseudo-transition),
BeginCb/EndCb/Advance/Assign with the formulas PropPhaseOrder, InvPendingWF, InvViewOK.
Binding: every generated callback logs its begin (injected state/source/target/event, the current
state it reads, nesting) and end; the trace spec accepts a begin only for a callback pending in the
current phase and refuses to leave a phase with callbacks pending.
Selection is kept trivial here (no guards, one candidate per state/event, declared events only) so
that a deviation found by this check is about callbacks, not about selection (C01).
"""
import random

import enginecheck as ec
import framework
import gen

EVS = ["alpha", "beta", "gamma", "delta"]   # not prefix-related


def one_candidate(d):
    seen = set()
    keep = []
    for t in d["trans"]:
        evs = [e for e in t["evs"] if (t["src"], e) not in seen]
        for e in evs:
            seen.add((t["src"], e))
        keep.append(evs)
    # transitions that lost all their events keep one fresh event name (still declared)
    k = 0
    for t, evs in zip(d["trans"], keep):
        if not evs:
            k += 1
            evs = [f"only{k}"]
        t["evs"] = evs
    d["evlist"] = sorted({e for t in d["trans"] for e in t["evs"]})
    return d


def scenario(rng):
    coro = rng.choice([0.0, 0.0, 0.4, 1.0])
    scn = gen.rand_engine_scenario(
        rng, nested=0.0, fail=0.0, dense=rng.choice([0.3, 0.7, 1.0]), guards=False, validators=False,
        coro=coro, yields=2, nsends=rng.randint(2, 8), unknown=(), events=EVS, evcb_p=rng.choice([0.0, 0.3]),
        provs=rng.choice([["sm"], ["sm", "model"], ["sm", "model", "l1"], ["sm", "l1", "l2"]]))
    d = scn["classes"][0]
    one_candidate(d)
    # callables of a quarter of the classes are bound methods of ONE function on different helper objects (a.record, b.record)
    d["shared_bound"] = rng.random() < 0.25
    # event-actions must still name a declared event of higher rank (events may have been renamed above)
    order = d["evlist"]
    d["cbs"] = [cb for cb in d["cbs"] if not cb.get("evcb") or (
        cb["evcb"] in order and all(e in order and order.index(cb["evcb"]) > order.index(e) for e in d["trans"][cb["tix"] - 1]["evs"]))]
    if any(cb.get("evcb") for cb in d["cbs"]):
        scn["steps"][0]["opt"]["rtc"] = True
        scn["steps"][0]["opt"]["allow"] = True
    for st in scn["steps"][1:]:
        st["ev"] = rng.choice(d["evlist"])
    # listeners attached LATE, in the middle of the history (after the transitions have already fired for some
    # events): from then on their callbacks belong to the groups like everybody else's
    new = scn["steps"][0]
    lst = [p for p in new["provs"] if p not in ("sm", "model")]
    if lst and rng.random() < 0.5:
        late = rng.sample(lst, rng.randint(1, len(lst)))
        for cb in d["cbs"]:
            if cb["prov"] in late and cb.get("style") != "convention":
                cb["prov"] = "sm"            # explicit names must resolve at construction
        ctor = [p for p in new["provs"] if p not in late]
        from checks.c12 import registered     # (a convention callback of an event no transition carries is never registered)
        ctor_async = any(cb["coro"] and cb["prov"] in ctor and registered(d, cb) for cb in d["cbs"])
        for cb in d["cbs"]:
            if cb["prov"] in late and not ctor_async:
                cb["coro"] = False           # (known finding F7: coroutine listener added to a sync-engine machine)
        new["provs"] = ctor
        for p in late:
            at = rng.randint(min(2, len(scn["steps"])), len(scn["steps"]))
            scn["steps"].insert(at, {"op": "call", "i": 1, "api": "add_listener", "v": p})
        # ... and the events sent before come again afterwards
        before = [st["ev"] for st in scn["steps"][1:] if st.get("api") != "add_listener"]
        for _ in range(rng.randint(3, 8)):
            scn["steps"].append({"op": "call", "i": 1, "api": rng.choice(["send", "event"]),
                                 "ev": rng.choice(before or d["evlist"]), "gv": gen.rand_gv(rng)})
        scn["late_listeners"] = True
    if any(cb["coro"] for cb in d["cbs"]):
        scn["steps"][0]["opt"]["rtc"] = True
        if rng.random() < 0.5:
            scn["driver"] = "inloop"
    return scn


def run(pid, tier, seed, replay):
    chk = framework.Check(pid, tier, seed)
    if replay:
        rc = ec.replay_file(chk, replay)
        chk.finish()
        return rc
    rng = random.Random(2000 + seed)
    quick = tier == "quick"
    ec.standard(
        chk, rng,
        family_kw=dict(nstates=3, dense=0.8, guards=False, validators=False, nested=False, max_cbs=7),
        consts={"NI": 1, "MaxCalls": 2, "MaxFails": 0, "MaxActs": 0},
        required=("MCBegin", "MCEnd", "MCAdvance", "MCAssign"),
        scen_fn=scenario, n_random=1500 if quick else 25000, n_hist=1200 if quick else 15000,
        fam_size=5 if quick else 30, shards=4 if quick else 12, label="callback order")
    chk.coverage["rule"] = ("family: small definitions with up to 7 callbacks over all kinds (transition, event-scoped "
                            "convention, generic, state, generic-state), all in-group orders; random: every attachment "
                            "style x provider (listeners attached at construction or in the middle of the history), "
                            "external/self/internal/multi-event transitions, both engines, coroutine callbacks that yield")
    chk.assumptions += ["order inside one group is unconstrained (documented)"]
    return chk.finish()
