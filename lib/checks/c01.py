"""C01 - transition selection follows the declared machine.

Model: System.tla actions Select / BeginCb(guard) / EndCb / GuardFail / Assign / Unwind with the
formulas PropFirstEnabledWins, NoCandidateOutcome, PropCurOnlyInAssign (TLC, exhaustive over a
family of small definitions x all valuations x rtc x allow x known/unknown events).
Binding: (a) one implementation run per distinct quiescent end state of the bounded model;
(b) random definitions (multi-candidate, multi-event, prefix-related event names, cond/unless
lists, validators that raise) on both engines, every execution validated against the spec.
"""
import random

import enginecheck as ec
import framework
import gen


def scenarios(rng, n, coro):
    out = []
    for _ in range(n):
        scn = gen.rand_engine_scenario(
            rng, nested=0.0, fail=0.0, dense=0.0, guard_p=0.8, validator_p=0.25,
            coro=coro if rng.random() < 0.4 else 0.0, nsends=rng.randint(2, 10),
            unknown=("nope", "prefix"), provs=rng.choice([["sm"], ["sm", "model"], ["sm", "l1"]]),
            driver="sync")
        if any(cb["coro"] for cb in scn["classes"][0]["cbs"]) and rng.random() < 0.5:
            scn["driver"] = "inloop"
        out.append(scn)
    return out


def run(pid, tier, seed, replay):
    chk = framework.Check(pid, tier, seed)
    if replay:
        rc = ec.replay_file(chk, replay)
        chk.finish()
        return rc
    rng = random.Random(1000 + seed)
    quick = tier == "quick"
    fam = [gen.family_member(rng, nstates=3, dense=0.0, nested=False, validators=True,
                             ntrans=rng.randint(1, 3)) for _ in range(5 if quick else 40)]
    consts = {"NI": 1, "MaxCalls": 2 if quick else 3, "MaxFails": 1, "MaxActs": 0}
    _cov, hs = ec.mc_run(chk, fam, consts, required=("MCSelect", "MCGuardFail", "MCAssign", "MCUnwind"),
              label="selection family", hist_limit=1500 if quick else 20000)
    ec.run_validate(chk, hs, "spec-behaviour replay", shards=4 if quick else 12)
    ec.run_validate(chk, scenarios(rng, 1500 if quick else 30000, coro=0.5), "random selection scenarios",
                    shards=4 if quick else 12)
    ec.nonrtc_leg(chk, rng, 250 if quick else 4000, shards=2 if quick else 8)
    chk.coverage["rule"] = ("family: random small definitions (<=3 states, guards over g1,g2, validators, "
                            "multi-event transitions), all valuations, rtc x allow, known + unknown events; "
                            "random: <=5 states, <=12 transitions, prefix-related event names, both engines")
    chk.assumptions += ["order of callbacks inside one group is unconstrained (documented)",
                        "guards are evaluated under the valuation set before the external call"]
    return chk.finish()
