"""C17 - deepcopy / pickle clones are equivalent and independent.

Model: Copy(i, j): the clone's machine record equals the original's (same class, same model content, same
options and provider set, a still-pending `__initial__` preserved), afterwards the ordinary frame condition:
a step changes one instance only (PropIsolation).
Binding: random histories with a copy point (deepcopy or pickle; also before the activation of an async
machine; also a copy of the copy), then diverging suffixes driven on original and clones in random
interleaving; the projection of ALL instances is compared after every call, the clone's providers must be
the clone's own objects and `clone.model is not original.model`.
"""
import random

import enginecheck as ec
import framework
import gen

EVS = ["alpha", "beta", "gamma", "delta"]


def scenario(rng, findings=False):
    coro = rng.choice([0.0, 0.0, 0.5, 1.0])
    scn = gen.rand_engine_scenario(
        rng, nested=0.3, fail=0.1, dense=rng.choice([0.4, 0.8]), guards=rng.random() < 0.4, validators=False,
        coro=coro, yields=0, nsends=0, unknown=("nope",), events=EVS,
        provs=rng.choice([["sm"], ["sm", "model"], ["sm", "model", "l1"], ["sm", "l1", "l2"]]), styles=False)
    d = scn["classes"][0]
    ids = [s["id"] for s in d["states"]]
    new = scn["steps"][0]
    has_coro = any(cb["coro"] for cb in d["cbs"])
    if has_coro:
        new["opt"]["rtc"] = True
    if rng.random() < 0.3:
        new["opt"]["start"] = rng.choice(ids)
    if rng.random() < 0.3:
        new["state_field"] = "status"
    steps = [new]

    def sends(slots, n):
        for _ in range(n):
            i = rng.choice(slots)
            r = rng.random()
            if r < 0.08:
                steps.append({"op": "call", "i": i, "api": "activate", "gv": gen.rand_gv(rng)})
            elif r < 0.14 and (findings or not has_coro or len(steps) > 3):
                # (known finding F19: an outside write on a not yet activated async machine, then a copy)
                steps.append({"op": "call", "i": i, "api": "write_setter", "v": rng.choice(ids)})
            else:
                steps.append({"op": "call", "i": i, "api": rng.choice(["send", "event"]),
                              "ev": rng.choice(d["evlist"] + ["nope"]), "gv": gen.rand_gv(rng)})
                if steps[-1]["ev"] == "nope":
                    steps[-1]["api"] = "send"
    sends([1], rng.choice([0, 0, 1, 2, 4]))
    steps.append({"op": "call", "i": 1, "api": "copy", "j": 2, "how": rng.choice(["deepcopy", "pickle"])})
    sends([1, 2], rng.randint(2, 8))
    if rng.random() < 0.4:
        steps.append({"op": "call", "i": rng.choice([1, 2]), "api": "copy", "j": 3,
                      "how": rng.choice(["deepcopy", "pickle"])})
        sends([1, 2, 3], rng.randint(2, 6))
    # a copy taken by a CALLBACK, in the middle of a transition and with an event already queued behind it (an undo /
    # persistence hook): slot 3 then holds a machine at rest, with nothing of what the original was in the middle of
    if not any(st.get("j") == 3 for st in steps) and rng.random() < 0.35:
        cands = [c for c, cb in enumerate(d["cbs"], start=1) if cb["group"] not in ("cond", "validators")]
        if cands:
            c = rng.choice(cands)
            scn["script"] = dict(scn.get("script") or {})
            scn["script"][str(c)] = [rng.choice(d["evlist"]), {"copy": 3, "how": rng.choice(["deepcopy", "pickle"])}]
            scn["budget"] = max(2, scn.get("budget", 0))
            new["opt"]["budget"] = max(2, new["opt"].get("budget", 0))
            sends([1, 3, 3], rng.randint(2, 5))
            scn["callback_copy"] = True
    # callbacks kept as plain instance attributes of the machine, set before super().__init__() (deepcopy only: a bound
    # method in the instance dictionary cannot be pickled)
    if rng.random() < 0.3:
        picked = [cb for cb in d["cbs"] if cb["prov"] == "sm" and cb.get("style") in ("name", "convention") and not cb.get("alias")
                  and rng.random() < 0.6]
        for cb in picked:
            cb["inst_attr"] = True
        if picked:
            for st in steps:
                if st.get("api") == "copy":
                    st["how"] = "deepcopy"
            for v in (scn.get("script") or {}).values():
                for op in v:
                    if isinstance(op, dict) and "copy" in op:
                        op["how"] = "deepcopy"
            scn["instance_attribute_callbacks"] = True
    # events bound onto the model (bind_events_to / MachineMixin): after a copy, the clone's model drives the CLONE
    if rng.random() < 0.4:
        new["bind_model"] = True
        for st in steps:
            if st.get("api") in ("send", "event") and st.get("ev") in d["evlist"] and rng.random() < 0.6:
                st["api"] = "mixin_bound"
    # user data on the machine object, set before and between the copies: the clone carries what the original had
    d["shadow_attr"] = True
    for _ in range(rng.randint(0, 2)):
        steps.insert(rng.randint(1, len(steps)), {"op": "call", "i": 1, "api": "set_attr", "v": f"tag{rng.randint(1, 9)}"})
    if rng.random() < 0.3:
        steps.append({"op": "call", "i": rng.choice([1, 2]), "api": "set_attr", "v": "late"})
        sends([1, 2], 2)
    scn["steps"] = steps
    # listeners that are value-like (compare and hash equal to each other) or unhashable (a plain @dataclass)
    scn["listener_kind"] = rng.choice(["attr", "attr", "equal", "unhashable", "falsy_len", "falsy_bool"])
    return scn


def featurize(scn, res, v):
    lines = res["lines"]
    k = v["matched"]
    d = scn["classes"][0]
    listener_only_async = False
    ctor_provs = scn["steps"][0]["provs"]
    async_on_machine_or_model = any(cb["coro"] and cb["prov"] in ("sm", "model") for cb in d["cbs"])
    async_any = any(cb["coro"] and cb["prov"] in ctor_provs for cb in d["cbs"])
    # per slot, along the copy chain: was the machine written from outside before its activation, and was it
    # copied while its activation was still pending
    activated, wba, cba = {1: False}, {1: False}, {1: False}
    for ln in lines[:k + 1]:
        if ln["e"] == "call" and ln["api"] in ("write_setter", "write_model") and async_any and not activated.get(ln["i"], False):
            wba[ln["i"]] = True
        if ln["e"] == "ret":
            for j, p in enumerate(ln["proj"], start=1):
                if p["cur"] != "" and not wba.get(j, False) and j in activated:
                    activated[j] = True
        if ln["e"] == "call" and ln["api"] == "copy":
            i, j = ln["i"], ln["j"]
            activated[j] = activated.get(i, False)
            wba[j] = wba.get(i, False)
            cba[j] = cba.get(i, False) or (async_any and not activated.get(i, False))
    nslot = (lines[k] if k < len(lines) else {}).get("i", 1)
    copied_before_activation = cba.get(nslot, False)
    written_before_activation = wba.get(nslot, False)
    if async_any and not async_on_machine_or_model:
        listener_only_async = True
    nxt = lines[k] if k < len(lines) else {}
    return {"instance_attribute_callbacks": bool(scn.get("instance_attribute_callbacks")), "copy_taken_by_callback": bool(scn.get("callback_copy")), "events_bound_to_model": bool(scn["steps"][0].get("bind_model")), "listener_kind": scn.get("listener_kind", "attr"), "listeners": len([p for p in ctor_provs if p not in ("sm", "model")]),
            "copied_before_activation": copied_before_activation, "async_only_on_listeners": listener_only_async,
            "written_before_activation": written_before_activation,
            "on_clone": nxt.get("i", 1) != 1}


def run(pid, tier, seed, replay):
    chk = framework.Check(pid, tier, seed)
    if replay:
        rc = ec.replay_file(chk, replay, featurize=featurize)
        chk.finish()
        return rc
    rng = random.Random(17000 + seed)
    quick = tier == "quick"
    shared = []

    def on_result(scn, res):
        for n in res.get("notes", []):
            if n["kind"] == "clone_shares_model":
                shared.append((scn, res))

    ec.run_validate(chk, [scenario(rng) for _ in range(2000 if quick else 30000)], "clones: random histories",
                    shards=5 if quick else 12, featurize=featurize, on_result=on_result)
    ec.run_validate(chk, [scenario(rng, findings=True) for _ in range(80 if quick else 800)],
                    "clones: shapes of the known findings", shards=2 if quick else 6, featurize=featurize)
    for scn, res in shared:
        chk.report({"kind": "clone_shares_model"}, "clone.model is original.model", {"scenario": scn})
    chk.coverage["rule"] = ("history of 0-4 calls, copy (deepcopy | pickle), diverging suffixes on original and clone in random "
                            "interleaving, optionally a copy of either and a third suffix; options rtc/allow/start_value/state_field, "
                            "custom attributes on the machine (with and without a class-level namesake), models and listeners with callbacks (listeners also value-like: equal to each other, or unhashable), both engines incl. copies taken before activation")
    chk.coverage["exhaustive"] = False
    return chk.finish()
