"""C11 - initial activation happens once; a stored state is resumed untouched.

Model: NewM (queue `__initial__` iff the model stores nothing), DoNew (sync: drain at once; async: defer
to the first loop entry), DoActivate (a no-op when nothing is queued), DoSelect's initial branch
(start_value or the initial state; only enter callbacks of that state, event `__initial__`), Instantiate
over the model of an existing machine (restart).  Formulas: InitOnlyFromNoState, ResumeRunsNothing,
ActivatedBeforeFirstEvent plus the engine formulas for initial-enter callbacks that send events.
Binding: histories mixing construction over every state as stored value, 0-3 re-activations, restarts
after random histories, start_value, async machines with events before/after explicit activation,
rtc on/off; every execution validated against the spec (callbacks during construction are in the trace).
"""
import random

import enginecheck as ec
import framework
import gen

EVS = ["alpha", "beta", "gamma", "delta"]


def scenario(rng):
    coro = rng.choice([0.0, 0.0, 0.0, 0.5, 1.0])
    scn = gen.rand_engine_scenario(
        rng, nested=0.5, fail=0.0, dense=rng.choice([0.6, 1.0]), guards=False, validators=False,
        coro=coro, yields=1, nsends=0, unknown=(), events=EVS,
        provs=rng.choice([["sm"], ["sm", "model"], ["sm", "model", "l1"]]))
    d = scn["classes"][0]
    ids = [s["id"] for s in d["states"]]
    # state values of every kind (a stored 0, "" or () is a stored state like any other)
    from checks import c10
    scheme = rng.choice(c10.SCHEMES)
    order = list(range(len(ids)))
    rng.shuffle(order)
    for s, k in zip(d["states"], order):
        s["value"] = c10.value_for(scheme, k, rng)
    new = scn["steps"][0]
    has_coro = any(cb["coro"] for cb in d["cbs"])
    if has_coro:
        new["opt"]["rtc"] = True
        scn["driver"] = rng.choice(["sync", "inloop"])
    if rng.random() < 0.6:
        new["stored"] = rng.choice(ids)
        # what is stored may be a member of a mixed-in enum equal to the state's raw value (IntEnum, (str, Enum)): a valid
        # stored state like any other - and "untouched" means the very object stays
        new["stored_alias"] = rng.random() < 0.5
    if rng.random() < 0.3:
        new["opt"]["start"] = rng.choice(ids)
    # nested sends preferably from enter callbacks (they run during activation)
    enters = [c for c, cb in enumerate(d["cbs"], start=1) if cb["group"] == "enter"]
    if enters and rng.random() < 0.7:
        scn["script"] = {str(c): [rng.choice(d["evlist"])] for c in rng.sample(enters, min(2, len(enters)))}
    steps = [new]
    for _ in range(rng.randint(2, 9)):
        r = rng.random()
        if r < 0.3:
            steps.append({"op": "call", "i": 1, "api": "activate", "gv": gen.rand_gv(rng)})
        elif r < 0.45:
            opt = dict(new["opt"])
            if not has_coro:
                opt["rtc"] = rng.random() < 0.6
            opt["start"] = rng.choice(ids) if rng.random() < 0.3 else ""
            steps.append({"op": "new", "i": 1, "cls": 1, "opt": opt, "stored": "", "reuse_model": True,
                          "provs": new["provs"], "gv": gen.rand_gv(rng)})
        else:
            steps.append({"op": "call", "i": 1, "api": rng.choice(["send", "event"]),
                          "ev": rng.choice(d["evlist"]), "gv": gen.rand_gv(rng)})
    if rng.random() < 0.3:
        # a copy (deepcopy / pickle) taken at some point - for an async machine possibly before it was ever activated: the
        # copy activates like the original would (same start_value), or resumes what the model stores, exactly once
        at = 1 if (has_coro and rng.random() < 0.6) else rng.randint(1, len(steps))
        # (the dynamically made enum of a stored alias cannot be pickled: deepcopy there)
        steps.insert(at, {"op": "call", "i": 1, "api": "copy", "j": 2,
                          "how": "deepcopy" if new.get("stored_alias") else rng.choice(["deepcopy", "pickle"])})
        for _ in range(rng.randint(1, 4)):
            r = rng.random()
            st = ({"op": "call", "i": 2, "api": "activate", "gv": gen.rand_gv(rng)} if r < 0.4 else
                  {"op": "call", "i": 2, "api": rng.choice(["send", "event"]), "ev": rng.choice(d["evlist"]), "gv": gen.rand_gv(rng)})
            steps.insert(rng.randint(at + 1, len(steps)), st)
        # (the restart steps re-use slot 1's model only)
    scn["steps"] = steps
    return scn


def cancel_scenario(rng):
    """An async machine whose EXPLICIT activation is cut short by a cancellation (a BaseException) inside an enter callback
    of the initial state: the activation is over all the same - activating again, or sending events, never re-enters."""
    scn = scenario(rng)
    d = scn["classes"][0]
    for cb in d["cbs"]:
        cb["coro"] = True if cb.get("style") not in ("property", "event") and not cb.get("evcb") else cb["coro"]
        cb["yields"] = 0
    new = scn["steps"][0]
    new["stored"], new["stored_alias"] = "", False
    new["opt"].update(rtc=True, start="")
    rest = [st for st in scn["steps"][1:] if st["op"] == "call"]
    scn["steps"] = [new, {"op": "call", "i": 1, "api": "activate", "gv": gen.rand_gv(rng)},
                    {"op": "call", "i": 1, "api": "activate", "gv": gen.rand_gv(rng)}] + rest
    scn["script"] = {}
    scn["failAt"] = [rng.choice([1, 1, 2])]
    scn["cancel_activation"] = True
    scn["driver"] = rng.choice(["sync", "inloop"])
    return scn


def featurize(scn, res, v):
    lines = res["lines"]
    k = v["matched"]
    nxt = lines[k] if k < len(lines) else {}
    call = ec.first_call_before(lines, k)
    opt = {}
    for ln in lines[:k + 1]:
        if ln["e"] == "new":
            opt = ln["opt"]
    return {"call_api": call.get("api", call.get("e")), "opt_rtc": opt.get("rtc"),
            "exc_text": nxt.get("exc", {}).get("st", "")[:40] if nxt.get("e") == "ret" else ""}


def run(pid, tier, seed, replay):
    chk = framework.Check(pid, tier, seed)
    if replay:
        rc = ec.replay_file(chk, replay, featurize=featurize)
        chk.finish()
        return rc
    rng = random.Random(11000 + seed)
    quick = tier == "quick"
    fam = []
    for _ in range(2 if quick else 20):
        m = gen.family_member(rng, nstates=3, dense=0.9, guards=False, validators=False, nested=True, max_cbs=4)
        ids = [s["id"] for s in m["classes"][0]["states"]]
        m["stored"] = [""] + ids[:2]
        m["opts"] = [dict(o, start=st) for o in m["opts"] for st in ("", ids[-1])]
        fam.append(m)
    consts = {"NI": 1, "MaxCalls": 1, "MaxFails": 0, "MaxActs": 2}
    _cov, hs = ec.mc_run(chk, fam, consts, required=("MCNew", "MCActivate", "MCRestart", "MCSelect", "MCAssign"),
              label="activation family", hist_limit=1500 if quick else 20000)
    ec.run_validate(chk, hs, "activation: spec-behaviour replay", shards=4 if quick else 12, featurize=featurize)
    ec.run_validate(chk, [scenario(rng) for _ in range(1500 if quick else 25000)], "activation: random histories",
                    shards=4 if quick else 12, featurize=featurize)
    ec.run_validate(chk, [cancel_scenario(rng) for _ in range(300 if quick else 4000)], "activation cut short by a cancellation",
                    shards=3 if quick else 10, featurize=featurize)
    chk.coverage["rule"] = ("family: <=3 states, stored in {none, s0, s1}, start_value in {none, last state}, rtc x allow, up to 2 "
                            "re-activations / restarts / outside writes and 1 event; random: construction over every state, "
                            "re-activation, restart after random histories, async before/after explicit activation")
    return chk.finish()
