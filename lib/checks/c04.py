"""C04 - a failing callback leaves a consistent, usable machine.

Model: EndCb(raised) / Raise / Unwind (every frame abandoned; RTC clears the queue and releases the
lock) with the formulas PropFailureState (state after a failure is what it was when the failure
happened: source up to `on`, target from `enter`), InvQuiescent (back at the caller: unlocked, empty
queue, no frames), DroppedNeverRun, and the ordinary engine formulas for the sends that follow.
TLC enumerates every callback invocation of every behaviour of the family as a crash point.
Binding (fault enumeration on the real code): every scenario is first run fault-free to number its
callback invocations, then once per crash point k with the k-th invocation raising, followed by
further sends; every execution is validated against the spec.
"""
import copy
import random

import enginecheck as ec
import framework
import gen
import harness

EVS = ["alpha", "beta", "gamma", "delta"]


def base_scenario(rng):
    coro = rng.choice([0.0, 0.0, 0.0, 0.6, 1.0])
    scn = gen.rand_engine_scenario(
        rng, nested=0.8, fail=0.0, dense=rng.choice([0.5, 0.9]), guards=rng.random() < 0.6,
        validators=True, validator_p=0.2, coro=coro, yields=0, nsends=rng.randint(3, 6), unknown=(), evcb_p=rng.choice([0.0, 0.2]),
        events=EVS, provs=rng.choice([["sm"], ["sm", "model"], ["sm", "model", "l1"]]))
    d = scn["classes"][0]
    for cb in d["cbs"]:
        if cb["group"] == "validators":
            cb["gname"] = "none"
    if any(cb["coro"] for cb in d["cbs"]):
        scn["steps"][0]["opt"]["rtc"] = True
        if rng.random() < 0.5:
            scn["driver"] = "inloop"
    return scn


def crash_points(rng, base, per_base):
    r = harness.Runner(copy.deepcopy(base))
    r.run()
    n = r.rt.ninv
    ks = list(range(1, n + 1))
    if per_base and len(ks) > per_base:
        ks = sorted(rng.sample(ks, per_base))
    out = []
    for k in ks:
        scn = copy.deepcopy(base)
        scn["failAt"] = [k] if rng.random() < 0.8 else sorted({k, rng.randint(k, n + 3)})
        scn["crash_point"] = k
        out.append(scn)
    return n, out


def run(pid, tier, seed, replay):
    chk = framework.Check(pid, tier, seed)
    if replay:
        rc = ec.replay_file(chk, replay)
        chk.finish()
        return rc
    rng = random.Random(4000 + seed)
    quick = tier == "quick"
    fam = [gen.family_member(rng, nstates=3, dense=0.7, guards=False, validators=True, nested=True, max_cbs=4)
           for _ in range(3 if quick else 12)]
    consts = {"NI": 1, "MaxCalls": 2, "MaxFails": 1 if quick else 2, "MaxActs": 0}
    _cov, hs = ec.mc_run(chk, fam, consts, required=("MCFail", "MCUnwind", "MCNested", "MCLoopPop"), label="failure family", hist_limit=1500 if quick else 20000)
    ec.run_validate(chk, hs, "failure: spec-behaviour replay", shards=4 if quick else 12)
    scns, total_points, bases = [], 0, 0
    target = 2000 if quick else 40000
    while len(scns) < target:
        base = base_scenario(rng)
        n, variants = crash_points(rng, base, per_base=12 if quick else None)
        total_points += n
        bases += 1
        scns += variants
    ec.run_validate(chk, scns, "failure: crash-point sweep", shards=6 if quick else 14)
    chk.coverage["evaluations"] = len(scns)
    chk.coverage["distinct_nontrivial"] = len({(id(s["classes"]), tuple(s["failAt"])) for s in scns})
    chk.coverage["crash_points_available"] = total_points
    chk.coverage["base_scenarios"] = bases
    def failing(scn):
        scn["failAt"] = sorted(rng.sample(range(1, 25), rng.randint(1, 2)))
    ec.nonrtc_leg(chk, rng, 250 if quick else 4000, shards=2 if quick else 8, tweak=failing)
    # the failure path with a second sender around (threads, every line boundary of the dispatch code, <= 2 preemptions):
    # what the failing call drops stays dropped, what the other sender was promised is still done, nothing is left
    # wedged or stranded (validated against Dispatch.tla like C06's executions)
    from concurrent.futures import ProcessPoolExecutor
    from checks import c06
    with ProcessPoolExecutor(max_workers=14) as pool:
        runs = []
        for plan in ({"fail": ["1:1"]}, {"fail": ["2:1"]}, {"fail": ["1:1"], "nested": ["1:1"]}):
            runs += c06.explore_threads(pool, 2, 1, plan, 2, 300 if quick else 6000, rng, hot_cap=1200 if quick else None)
        chk.cov_add("failure_schedules_with_second_sender", len(runs))
        c06.validate(chk, runs, 2, 1, "threads", "failure with a concurrent sender", shards=4 if quick else 12)
    chk.coverage["rule"] = ("every callback invocation position of a fault-free run is a crash point (quick: up to 12 sampled per "
                            "base scenario); the failing run continues with the remaining sends; base scenarios mix nested sends, "
                            "validators, machine/model/listener callbacks, both engines, rtc on/off")
    chk.assumptions += ["async scenarios with failure injection use coroutine callbacks that do not suspend (gather does not "
                        "cancel siblings of a failed callback; see DESIGN 3.3)"]
    return chk.finish()
