"""C16 - machines are isolated from other instances, classes and definitions.

Model: the class table is fixed and every action names the one instance it changes (PropIsolation: a step changes
at most one instance and never a class); the trace spec compares, after EVERY step of a program, the projection
of all instances and the structure read back from every class object defined so far (states, events, per-state
allowed events and targets) with the declared definitions.
Binding: programs interleaving class statements (independent classes, classes re-using one class name and the same
method names with different async-ness, subclasses that only add callbacks, subclasses that extend inherited
states), instantiation and event histories on up to three instances of different classes.
"""
import copy
import random

import enginecheck as ec
import framework
import gen
import harness

EVS = ["alpha", "beta", "gamma", "delta"]


def multi(rng, collide):
    ncls = rng.choice([2, 2, 3])
    classes = []
    for k in range(ncls):
        d = gen.rand_def(rng, provs=("sm",), dense=rng.choice([0.4, 0.8]), coro=rng.choice([0.0, 0.0, 1.0]),
                         guards=rng.random() < 0.3, validators=False, events=EVS, styles=False,
                         nstates=rng.randint(2, 4))
        if collide:
            d["fixed_name"] = "Same"
            d["collide_qualnames"] = True
            for cb in d["cbs"]:       # conventions collide by themselves; name-style ones get shared names
                if cb["style"] == "name":
                    cb["name"] = f"shared_{cb['group']}_{rng.randint(1, 3)}"
            # one callback per attribute name
            seen, keep = set(), []
            for c, cb in enumerate(d["cbs"], start=1):
                nm = cb.get("name") or harness.cb_name(c, cb)
                if (nm, cb["tix"], cb["owner"]) in seen or any(nm == (x.get("name") or "") and x is not cb for x in keep if x["style"] == "name" and cb["style"] == "name"):
                    continue
                seen.add((nm, cb["tix"], cb["owner"]))
                keep.append(cb)
            d["cbs"] = keep
            for c, cb in enumerate(d["cbs"], start=1):
                if cb.get("ret", "none") != "none":
                    cb["ret"] = f"r{c}"
        # events declared as class attributes (go = a.to(b) | ...) where the event lists allow it, by event= otherwise
        order = []
        for t in d["trans"]:
            for e in t["evs"]:
                if e not in order:
                    order.append(e)
        if rng.random() < 0.5 and all([order.index(e) for e in t["evs"]] == sorted(order.index(e) for e in t["evs"]) for t in d["trans"]):
            d["evstyle"], d["evorder"] = "attr", order
        classes.append(d)
    steps = []
    lazy = [k for k in range(2, ncls + 1) if rng.random() < 0.6]
    slots = {}
    pending_cls = list(range(1, ncls + 1))
    for _ in range(rng.randint(6, 16)):
        r = rng.random()
        free = [i for i in (1, 2, 3) if i not in slots]
        if (r < 0.3 or not slots) and free:
            k = rng.choice(pending_cls)
            if k in lazy:
                steps.append({"op": "class", "k": k})
                lazy.remove(k)
            i = free[0]
            d = classes[k - 1]
            has_coro = any(cb["coro"] for cb in d["cbs"])
            opt = {"rtc": True if has_coro else rng.random() < 0.7, "allow": rng.random() < 0.3, "start": "", "budget": 2}
            steps.append({"op": "new", "i": i, "cls": k, "opt": opt, "stored": "", "provs": ["sm"], "gv": gen.rand_gv(rng)})
            slots[i] = k
        elif r < 0.36 and lazy:
            k = lazy.pop(0)
            steps.append({"op": "class", "k": k})
        elif slots:
            i = rng.choice(list(slots))
            d = classes[slots[i] - 1]
            if rng.random() < 0.08:
                # somebody tries the declaration API on this instance's event handle; instances created later are unimpressed
                steps.append({"op": "call", "i": i, "api": "decorate_bound", "ev": rng.choice(d["evlist"])})
                continue
            steps.append({"op": "call", "i": i, "api": rng.choice(["send", "event"]), "ev": rng.choice(d["evlist"]),
                          "gv": gen.rand_gv(rng)})
    # classes never instantiated still need their class step
    steps += [{"op": "class", "k": k} for k in lazy]
    return {"classes": classes, "steps": steps, "script": {}, "failAt": [], "budget": 2, "ni": 3, "driver": "sync",
            "probes": True, "kind": "collide" if collide else "multi"}


def cross_names(rng):
    """Unrelated classes whose vocabularies cross: the attribute names that one class gives to its callbacks (referenced
    by name) are names that ANOTHER class uses for its states or events.  What a name means is decided per class."""
    ncls = rng.choice([2, 3])
    pools = [EVS[:2], EVS[2:], ["eps", "zeta"]]
    classes = []
    for k in range(ncls):
        d = gen.rand_def(rng, provs=("sm",), dense=rng.choice([0.5, 0.9]), coro=0.0, guards=True, guard_p=0.6,
                         validators=rng.random() < 0.3, events=pools[k], styles=False, nstates=rng.randint(2, 4))
        gen.rename_states(d, "abc"[k])
        classes.append(d)
    for k, d in enumerate(classes):
        foreign = [s["id"] for j, o in enumerate(classes) if j != k for s in o["states"]]
        foreign += [e for j in range(ncls) if j != k for e in pools[j]]
        rng.shuffle(foreign)
        for cb in d["cbs"]:
            if cb["style"] == "name" and foreign and rng.random() < 0.8:
                cb["name"] = foreign.pop()
    steps, slots = [], {}
    lazy = [k for k in range(1, ncls + 1) if rng.random() < 0.5]
    for _ in range(rng.randint(6, 14)):
        free = [i for i in (1, 2, 3) if i not in slots]
        r = rng.random()
        if (r < 0.35 or not slots) and free:
            k = rng.randint(1, ncls)
            if k in lazy:
                steps.append({"op": "class", "k": k})
                lazy.remove(k)
            steps.append({"op": "new", "i": free[0], "cls": k,
                          "opt": {"rtc": rng.random() < 0.7, "allow": rng.random() < 0.3, "start": "", "budget": 2},
                          "stored": "", "provs": ["sm"], "gv": gen.rand_gv(rng)})
            slots[free[0]] = k
        elif r < 0.45 and lazy:
            steps.append({"op": "class", "k": lazy.pop(0)})
        elif slots:
            i = rng.choice(list(slots))
            steps.append({"op": "call", "i": i, "api": rng.choice(["send", "event"]),
                          "ev": rng.choice(classes[slots[i] - 1]["evlist"]), "gv": gen.rand_gv(rng)})
    steps += [{"op": "class", "k": k} for k in lazy]
    return {"classes": classes, "steps": steps, "script": {}, "failAt": [], "budget": 2, "ni": 3, "driver": "sync",
            "probes": True, "kind": "cross_names"}


def cross_sends(rng):
    """Machines that drive each other: callbacks of one instance send events to OTHER instances (which run them to
    completion while the sender waits in the middle of its own transition), including back to a busy sender (queued
    there in RTC mode).  Each machine must behave as its own definition says, whatever the others are in the middle of."""
    scn = multi(rng, collide=False)
    ncb = max(len(d["cbs"]) for d in scn["classes"])
    script = {}
    for c in rng.sample(range(1, ncb + 1), min(ncb, rng.randint(2, 5))):
        sends = []
        for _ in range(rng.randint(1, 2)):
            if rng.random() < 0.8:
                sends.append({"to": rng.choice([1, 2, 3]), "ev": rng.choice(EVS + ["nope"])})
            else:
                sends.append(rng.choice(EVS))
        script[str(c)] = sends
    # guards and validators stay free of side effects
    for d in scn["classes"]:
        for c, cb in enumerate(d["cbs"], start=1):
            if cb["group"] in ("cond", "validators"):
                script.pop(str(c), None)
    scn["script"] = script
    scn["budget"] = rng.randint(2, 4)
    for st in scn["steps"]:
        if st["op"] == "new":
            st["opt"]["budget"] = scn["budget"]
    # more traffic once the machines exist
    born = [st for st in scn["steps"] if st["op"] == "new"]
    for _ in range(rng.randint(3, 8)):
        st = rng.choice(born)
        scn["steps"].append({"op": "call", "i": st["i"], "api": "send",
                             "ev": rng.choice(scn["classes"][st["cls"] - 1]["evlist"]), "gv": gen.rand_gv(rng)})
    scn["kind"] = "cross_sends"
    scn["probes"] = False
    return scn


def shared_enum(rng):
    """Two or three unrelated classes whose states come from States.from_enum over ONE Enum class (same members, same
    initial / final choice): same vocabulary of states, different transitions, events and callbacks."""
    base = gen.rand_def(rng, provs=("sm",), dense=rng.choice([0.4, 0.8]), coro=0.0, guards=rng.random() < 0.4, validators=False,
                        events=EVS, styles=False, nstates=rng.randint(2, 4))
    classes = []
    for k in range(rng.choice([2, 2, 3])):
        d = copy.deepcopy(base)
        if k > 0:
            nonfinal = [s["id"] for s in d["states"] if not s["final"]]
            ids = [s["id"] for s in d["states"]]
            # keep the backbone (reachability), change what the transitions are called and add further ones
            pool = [["eps", "zeta"], ["eta", "theta"]][k - 1] + EVS
            for t in d["trans"]:
                if rng.random() < 0.5:
                    t["evs"] = [rng.choice(pool)]
            for _ in range(rng.randint(1, 3)):
                d["trans"].append({"src": rng.choice(nonfinal), "tgt": rng.choice(ids), "evs": [rng.choice(pool)],
                                   "internal": False, "decl": "to", "evjoin": True})
            d["cbs"] = [cb for cb in d["cbs"] if rng.random() < 0.6]
            d["evlist"] = sorted({e for t in d["trans"] for e in t["evs"]})
            # naming-convention callbacks of events this class no longer has would never be registered: drop them
            d["cbs"] = [cb for cb in d["cbs"] if cb["okind"] != "E" or cb["owner"] in d["evlist"]]
        for cb in d["cbs"]:
            if cb["okind"] == "S":
                cb["style"] = "convention"     # from_enum builds the State objects: no inline enter=/exit=
        seen, keep = set(), []
        for cb in d["cbs"]:
            key = (cb["okind"], cb["group"], cb["owner"]) if cb.get("style") == "convention" else id(cb)
            if key not in seen:
                seen.add(key)
                keep.append(cb)
        d["cbs"] = keep
        d["states_enum"] = "shared"
        for n, s in enumerate(d["states"]):
            s["value"] = {"t": "int", "v": n + 1}
        classes.append(d)
    ncls = len(classes)
    steps, slots = [], {}
    lazy = [k for k in range(2, ncls + 1) if rng.random() < 0.7]
    for _ in range(rng.randint(6, 14)):
        free = [i for i in (1, 2, 3) if i not in slots]
        r = rng.random()
        if (r < 0.3 or not slots) and free:
            k = rng.choice([k for k in range(1, ncls + 1) if k not in lazy] or [1])
            steps.append({"op": "new", "i": free[0], "cls": k,
                          "opt": {"rtc": True, "allow": rng.random() < 0.3, "start": "", "budget": 2},
                          "stored": "", "provs": ["sm"], "gv": gen.rand_gv(rng)})
            slots[free[0]] = k
        elif r < 0.5 and lazy:
            steps.append({"op": "class", "k": lazy.pop(0)})
        elif slots:
            i = rng.choice(list(slots))
            steps.append({"op": "call", "i": i, "api": rng.choice(["send", "event"]),
                          "ev": rng.choice(classes[slots[i] - 1]["evlist"]), "gv": gen.rand_gv(rng)})
    steps += [{"op": "class", "k": k} for k in lazy]
    return {"classes": classes, "steps": steps, "script": {}, "failAt": [], "budget": 2, "ni": 3, "driver": "sync",
            "probes": True, "kind": "shared_enum"}


def inherit(rng, extend):
    base = gen.rand_def(rng, provs=("sm",), dense=rng.choice([0.0, 0.5]), guards=False, validators=False, events=EVS,
                        styles=False, nstates=rng.randint(2, 3), finals=False)
    harness.normalize_def(base)
    sub = copy.deepcopy(base)
    sub["base"] = 1
    for s in sub["states"]:
        s["inherited"] = True
    for t in sub["trans"]:
        t["inherited"] = True
    for cb in sub["cbs"]:
        cb["inherited"] = True
    if extend:
        ids = [s["id"] for s in sub["states"]]
        new = f"n{rng.randint(1, 9)}"
        sub["states"].append({"id": new, "initial": False, "final": False})
        sub["trans"].append({"src": rng.choice(ids), "tgt": new, "evs": [rng.choice(EVS + ["extra"])], "internal": False})
        sub["trans"].append({"src": new, "tgt": rng.choice(ids), "evs": [rng.choice(EVS)], "internal": False})
        sub["evlist"] = sorted({e for t in sub["trans"] for e in t["evs"]})
    else:
        # only further naming-convention callbacks, defined on the subclass
        have = {(cb["okind"], cb["group"], cb["owner"]) for cb in sub["cbs"]}
        for ev in sub["evlist"]:
            for g in ("before", "after"):
                if rng.random() < 0.5 and ("E", g, ev) not in have:
                    sub["cbs"].append({"okind": "E", "owner": ev, "tix": 0, "group": g, "prov": "sm", "coro": False,
                                       "style": "convention"})
        if ("GS", "enter", "") not in have and rng.random() < 0.7:
            sub["cbs"].append({"okind": "GS", "owner": "", "tix": 0, "group": "enter", "prov": "sm", "coro": False,
                               "style": "convention"})
    classes = [base, sub]
    steps = [{"op": "new", "i": 1, "cls": 1, "opt": {"rtc": True, "allow": rng.random() < 0.3, "start": "", "budget": 2},
              "stored": "", "provs": ["sm"], "gv": gen.rand_gv(rng)}]
    for _ in range(rng.randint(0, 3)):
        steps.append({"op": "call", "i": 1, "api": "send", "ev": rng.choice(base["evlist"]), "gv": gen.rand_gv(rng)})
    steps.append({"op": "class", "k": 2})
    steps.append({"op": "new", "i": 2, "cls": 2, "opt": {"rtc": True, "allow": rng.random() < 0.3, "start": "", "budget": 2},
                  "stored": "", "provs": ["sm"], "gv": gen.rand_gv(rng)})
    steps.append({"op": "new", "i": 3, "cls": 1, "opt": {"rtc": True, "allow": False, "start": "", "budget": 2},
                  "stored": "", "provs": ["sm"], "gv": gen.rand_gv(rng)})
    for _ in range(rng.randint(3, 10)):
        i = rng.choice([1, 2, 3])
        d = classes[1] if i == 2 else classes[0]
        pool = d["evlist"] + (sub["evlist"] if extend else [])
        steps.append({"op": "call", "i": i, "api": "send", "ev": rng.choice(pool), "gv": gen.rand_gv(rng)})
    return {"classes": classes, "steps": steps, "script": {}, "failAt": [], "budget": 2, "ni": 3, "driver": "sync",
            "probes": True, "kind": "inherit_extend" if extend else "inherit_pure"}


def bags(rng):
    """Two unrelated classes whose models and listeners are objects of ONE class (attribute bags): each object carries its
    own callbacks as instance attributes, so what one object provides says nothing about another object of that class."""
    classes = []
    for k in range(2):
        d = gen.rand_def(rng, provs=("model", "l1"), dense=rng.choice([0.5, 0.9]), guards=rng.random() < 0.3,
                         validators=False, events=EVS, styles=False, nstates=rng.randint(2, 3))
        for cb in d["cbs"]:
            cb["coro"] = False
        if k == 1 and rng.random() < 0.4:
            d["cbs"] = [cb for cb in d["cbs"] if cb["okind"] == "T"]    # a bare bag: no convention hooks at all
        classes.append(d)
    steps = []
    order = [1, 2] if rng.random() < 0.5 else [2, 1]
    slot = {}
    for n, k in enumerate(order, start=1):
        steps.append({"op": "new", "i": n, "cls": k, "opt": {"rtc": True, "allow": rng.random() < 0.3, "start": "", "budget": 2},
                      "stored": "", "provs": ["sm", "model", "l1"], "model_kind": "bag", "gv": gen.rand_gv(rng)})
        slot[n] = k
        for _ in range(rng.randint(0, 2)):
            i = rng.choice(list(slot))
            steps.append({"op": "call", "i": i, "api": "send", "ev": rng.choice(classes[slot[i] - 1]["evlist"]),
                          "gv": gen.rand_gv(rng)})
    for _ in range(rng.randint(3, 8)):
        i = rng.choice(list(slot))
        steps.append({"op": "call", "i": i, "api": "send", "ev": rng.choice(classes[slot[i] - 1]["evlist"]), "gv": gen.rand_gv(rng)})
    return {"classes": classes, "steps": steps, "script": {}, "failAt": [], "budget": 2, "ni": 3, "driver": "sync",
            "probes": True, "bag_providers": True, "kind": "bags"}


def featurize(scn, res, v):
    lines = res["lines"]
    k = v["matched"]
    nxt = lines[k] if k < len(lines) else {}
    return {"program": scn.get("kind"), "probe_of_base": nxt.get("e") == "probe" and nxt.get("cls") == 1,
            "on_base_instance": nxt.get("i") in (1, 3) if scn.get("kind", "").startswith("inherit") else False}


def run(pid, tier, seed, replay):
    chk = framework.Check(pid, tier, seed)
    if replay:
        rc = ec.replay_file(chk, replay, featurize=featurize)
        chk.finish()
        return rc
    rng = random.Random(16000 + seed)
    quick = tier == "quick"
    n = 500 if quick else 8000
    scns = [multi(rng, collide=False) for _ in range(n)] + [multi(rng, collide=True) for _ in range(n)]
    scns += [inherit(rng, extend=False) for _ in range(n // 2)]
    scns += [inherit(rng, extend=True) for _ in range(20 if quick else 200)]
    scns += [bags(rng) for _ in range(n // 2)]
    scns += [cross_names(rng) for _ in range(n // 2)]
    scns += [cross_sends(rng) for _ in range(n)]
    scns += [shared_enum(rng) for _ in range(n // 2)]
    rng.shuffle(scns)
    # the two-instance exhaustive model: two machines of one small definition, outside calls on either and sends from the
    # callbacks of one to the other (run at once when the other is idle, queued when it is busy further down the chain);
    # TLC checks every invariant and PropIsolation on it and its behaviours are replayed on two real instances
    def small(k, max_cbs):
        fam = []
        while len(fam) < k:
            m = gen.family_member(rng, nstates=2, dense=0.6, guards=False, validators=False, nested=True, max_cbs=max_cbs, ntrans=1)
            if m["classes"][0]["cbs"]:
                m["opts"] = [o for o in m["opts"] if not o["allow"]]
                m["gvs"], m["evs"], m["nsends"] = m["gvs"][:1], m["evs"][:2], m["nsends"][:1]
                fam.append(m)
        return fam
    runs = [({"NI": 2, "MaxCalls": 1, "MaxFails": 0, "MaxActs": 0, "MaxX": 2}, 2, 2)]
    if not quick:
        runs += [({"NI": 2, "MaxCalls": 2, "MaxFails": 0, "MaxActs": 0, "MaxX": 1}, 4, 2),
                 ({"NI": 2, "MaxCalls": 1, "MaxFails": 1, "MaxActs": 0, "MaxX": 1}, 4, 3),
                 ({"NI": 2, "MaxCalls": 1, "MaxFails": 0, "MaxActs": 0, "MaxX": 2}, 4, 3)]
    for consts, k, max_cbs in runs:
        _cov, hs = ec.mc_run(chk, small(k, max_cbs), consts, required=("MCXCall", "MCXRet", "MCAssign"),
                             label="two instances", hist_limit=300 if quick else 4000, timeout=3000)
        ec.run_validate(chk, hs, "isolation: two-instance spec-behaviour replay", shards=4 if quick else 12, featurize=featurize)
    ec.run_validate(chk, scns, "isolation: programs", shards=5 if quick else 12, featurize=featurize)
    chk.coverage["rule"] = ("programs of 6-16 steps interleaving class statements (2-3 independent classes; classes sharing one class "
                            "name and method names with different async-ness; subclasses adding callbacks; subclasses extending "
                            "inherited states; classes whose callback names are other classes' state and event names; attribute-bag "
                            "models and listeners of one Python class; classes built with States.from_enum over one shared Enum; "
                            "machines whose callbacks send events to each other), instantiation of up to 3 machines and events on them; all instances and all class "
                            "objects are read back after every step; exhaustive two-instance model (outside calls on either, sends between them) with "
                            "its behaviours replayed on two real instances")
    return chk.finish()
