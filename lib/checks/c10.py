"""C10 - the current state is exactly what the user's model stores.

Model: the machine record has a single `cur` (the model field); Assign is the only engine step that
writes it, WriteSetter (membership check, then setattr) and WriteModel (behind the machine's back) write it
from outside; ProjState / ProjActive / ProjAllowed are functions of `cur` alone (no cached state);
DoSelect's initial branch honours start_value.  Formulas: InvExactlyOneActive, PropCurOnlyInAssign.
Binding: abstract values are concretised to str, int (incl. 0 and negatives), "", enum members and tuples;
model shapes: default Model, plain attribute, property-backed storage, class-level default, falsy objects
(__len__ -> 0, __bool__ -> False), arbitrary state_field; histories interleave events with valid and
invalid outside writes; after every call the projection (model field, current_state, current_state_value,
is_active of every state, allowed events, `sm.model is user_model`) is compared with the spec.
"""
import random

import enginecheck as ec
import framework
import gen

EVS = ["alpha", "beta", "gamma", "delta"]
SCHEMES = ["id", "int0", "negint", "emptystr", "enum", "tuple", "mixed"]
MODEL_KINDS = ["default", "attr", "property", "classattr", "falsy_len", "falsy_bool"]
ENUMS = ["A", "B", "C", "D", "E", "F"]


def value_for(scheme, k, rng):
    if scheme == "id":
        return None
    if scheme == "int0":
        return {"t": "int", "v": k}
    if scheme == "negint":
        return {"t": "int", "v": k - 2}
    if scheme == "emptystr":
        return {"t": "str", "v": "" if k == 0 else f"v{k}"}
    if scheme == "enum":
        return {"t": "enum", "v": ENUMS[k]}
    if scheme == "tuple":
        return {"t": "tuple", "v": [] if k == 0 else [k, 0]}
    return rng.choice([{"t": "int", "v": k}, {"t": "str", "v": "" if k == 0 else f"m{k}"},
                       {"t": "tuple", "v": [k]}, {"t": "enum", "v": ENUMS[k]}])


def scenario(rng):
    scn = gen.rand_engine_scenario(
        rng, nested=0.2, fail=0.15, dense=0.3, guards=False, validators=False, coro=rng.choice([0.0, 0.0, 0.5]),
        yields=0, nsends=0, unknown=(), events=EVS, provs=["sm", "model"] if rng.random() < 0.5 else ["sm"])
    d = scn["classes"][0]
    ids = [s["id"] for s in d["states"]]
    scheme = rng.choice(SCHEMES)
    order = list(range(len(ids)))
    rng.shuffle(order)   # so that the falsy value is not always the initial state's
    for s, k in zip(d["states"], order):
        s["value"] = value_for(scheme, k, rng)
    if rng.random() < 0.4:
        # several states sharing one display name: identity is by id/value, not by name
        for s in d["states"]:
            if rng.random() < 0.7:
                s["name"] = "Same name"
    scn["values"] = {"!bad1": {"t": "int", "v": 999}, "!bad2": {"t": "str", "v": "no_such_state"},
                     "!bad3": {"t": "tuple", "v": [9, 9]}}
    scn["value_scheme"] = scheme
    new = scn["steps"][0]
    has_coro = any(cb["coro"] for cb in d["cbs"])
    if has_coro:
        new["opt"]["rtc"] = True
        scn["driver"] = rng.choice(["sync", "inloop"])
    kind = rng.choice(MODEL_KINDS)
    if "model" in new["provs"] and kind == "default":
        kind = "attr"
    new["model_kind"] = kind
    new["state_field"] = rng.choice(["state", "state", "status", "my_field"])
    if kind != "default" and rng.random() < 0.4:
        new["stored"] = rng.choice(ids)
    if rng.random() < 0.5:
        new["opt"]["start"] = rng.choice(ids)
    steps = [new]
    for _ in range(rng.randint(3, 12)):
        r = rng.random()
        if r < 0.2:
            steps.append({"op": "call", "i": 1, "api": rng.choice(["write_setter", "write_setter", "write_state"]),
                          "v": rng.choice(ids + ["!bad1", "!bad2", "!bad3"])})
        elif r < 0.4:
            steps.append({"op": "call", "i": 1, "api": "write_model", "v": rng.choice(ids + ids + ["!bad1", "!bad2", "!bad3"])})
        else:
            steps.append({"op": "call", "i": 1, "api": rng.choice(["send", "event"]),
                          "ev": rng.choice(d["evlist"]), "gv": gen.rand_gv(rng)})
    if rng.random() < 0.15:
        # a model whose copies come back WITHOUT the state field: a copy of the machine is then a machine that starts anew
        # (start_value or the initial state), whatever state the original is in
        new["model_kind"] = "reset_on_copy"
        scn["failAt"] = []          # (no crash points here: a copy that fails while it starts is a different story)
        at = rng.randint(1, len(steps))
        steps.insert(at, {"op": "call", "i": 1, "api": "copy", "j": 2, "how": rng.choice(["deepcopy", "pickle"]), "reset": True,
                          "gv": gen.rand_gv(rng)})
        for _ in range(rng.randint(1, 4)):
            steps.insert(rng.randint(at + 1, len(steps)), {"op": "call", "i": 2, "api": rng.choice(["send", "event"]),
                                                            "ev": rng.choice(d["evlist"]), "gv": gen.rand_gv(rng)})
    scn["steps"] = steps
    cb_writes(rng, scn, ids)
    return scn


def cb_writes(rng, scn, ids, p=0.4):
    """Some callbacks write the model field themselves, in the middle of the transition (valid values mostly)."""
    if rng.random() >= p:
        return
    d = scn["classes"][0]
    script = scn.setdefault("script", {})
    cands = [c for c, cb in enumerate(d["cbs"], start=1) if cb["group"] not in ("cond", "validators") and not cb.get("evcb")]
    for c in rng.sample(cands, min(len(cands), rng.randint(1, 3))):
        w = {"write": rng.choice(ids + ids + ids + ["!bad1", "!bad2"])}
        script[str(c)] = [w] + list(script.get(str(c), []))
    scn["cb_writes"] = True
    scn["budget"] = max(1, scn.get("budget", 0))
    scn["steps"][0]["opt"]["budget"] = max(1, scn["steps"][0]["opt"].get("budget", 0))


def featurize(scn, res, v):
    new = scn["steps"][0]
    lines = res["lines"]
    k = v["matched"]
    nxt = lines[k] if k < len(lines) else {}
    falsy_start = False
    d = scn["classes"][0]
    for s in d["states"]:
        if s["id"] == new["opt"].get("start") and s.get("value") is not None:
            val = s["value"]["v"]
            falsy_start = val in (0, "", []) or val == []
    p = (nxt.get("proj") or [{}])[0]
    return {"model_kind": new.get("model_kind"), "scheme": scn.get("value_scheme"), "cb_writes": bool(scn.get("cb_writes")),
            "falsy_start_value": falsy_start, "modelok": p.get("modelok"), "first_call": k <= 2}


def run(pid, tier, seed, replay):
    chk = framework.Check(pid, tier, seed)
    if replay:
        rc = ec.replay_file(chk, replay, featurize=featurize)
        chk.finish()
        return rc
    rng = random.Random(10000 + seed)
    quick = tier == "quick"
    fam = []
    for _ in range(3 if quick else 15):
        m = gen.family_member(rng, nstates=3, dense=0.3, guards=False, validators=False, nested=False, max_cbs=2)
        ids = [s["id"] for s in m["classes"][0]["states"]]
        m["stored"] = ["", ids[-1]]
        m["opts"] = [dict(o, start=st) for o in m["opts"] for st in ("", ids[-1])]
        fam.append(m)
    consts = {"NI": 1, "MaxCalls": 2, "MaxFails": 0, "MaxActs": 2}
    _cov, hs = ec.mc_run(chk, fam, consts, required=("MCWrite", "MCAssign", "MCNew", "MCCall"), label="model-field family", hist_limit=1200 if quick else 15000)
    ec.run_validate(chk, hs, "model field: spec-behaviour replay", shards=4 if quick else 12, featurize=featurize)
    ec.run_validate(chk, [scenario(rng) for _ in range(2000 if quick else 30000)], "model field: random histories",
                    shards=4 if quick else 12, featurize=featurize)

    def valued(scn):
        scn["value_scheme"] = gen.assign_values(rng, scn["classes"][0])
        scn["steps"][0]["model_kind"] = rng.choice(MODEL_KINDS)
        scn["values"] = {"!bad1": {"t": "int", "v": 999}, "!bad2": {"t": "str", "v": "no_such_state"}}
        cb_writes(rng, scn, [s["id"] for s in scn["classes"][0]["states"]], p=0.5)
    ec.nonrtc_leg(chk, rng, 250 if quick else 4000, shards=2 if quick else 8, events=EVS, tweak=valued, featurize=featurize)
    chk.coverage["rule"] = ("value schemes id/int incl 0/negative int/empty string/enum/tuple/mixed x model shapes default/attribute/"
                            "property/class attribute/falsy(__len__)/falsy(__bool__) x state_field names x stored value x start_value; "
                            "histories of events and valid/invalid writes through the setter and directly on the model")
    return chk.finish()
