"""C14 - event results come only from before/on return values, by the documented rule.

Model: res accumulation in BeginCb/EndCb (before/on only), TrigResult/MkRes (0 -> None, 1 -> the value,
else the list, explicit None kept), Deliver (first result to the outermost RTC caller, own result to a
non-RTC nested caller), tolerated no-transition -> None; formula ResultOnlyBeforeOn.
Binding: every callback returns a unique object (or None); the recorder classifies the event's result
by identity (none / one(x) / list(x1..xn)), so a single callback returning a list is never confused
with a list of results.  All other groups return marker objects that must never appear.
"""
import random

import enginecheck as ec
import framework
import gen

EVS = ["alpha", "beta", "gamma", "delta"]


def scenario(rng):
    coro = rng.choice([0.0, 0.0, 0.5, 1.0])
    scn = gen.rand_engine_scenario(
        rng, nested=0.45, fail=0.0, dense=rng.choice([0.6, 1.0]), guards=rng.random() < 0.3, validators=False,
        coro=coro, yields=1, nsends=rng.randint(2, 7), unknown=("nope",), events=EVS, evcb_p=rng.choice([0.0, 0.3]),
        provs=rng.choice([["sm"], ["sm", "model"], ["sm", "l1"], ["sm", "model", "l1"]]))
    d = scn["classes"][0]
    # every group returns something; only before/on may reach the caller
    for c, cb in enumerate(d["cbs"], start=1):
        if cb["group"] in ("before", "on"):
            cb["ret"] = rng.choice(["none", f"r{c}", f"r{c}", f"r{c}"])
        elif cb["group"] != "cond":
            cb["ret"] = f"x{c}"
    if any(cb["coro"] for cb in d["cbs"]):
        scn["steps"][0]["opt"]["rtc"] = True
        if rng.random() < 0.5:
            scn["driver"] = "inloop"
    return scn


def run(pid, tier, seed, replay):
    chk = framework.Check(pid, tier, seed)
    if replay:
        rc = ec.replay_file(chk, replay)
        chk.finish()
        return rc
    rng = random.Random(14000 + seed)
    quick = tier == "quick"
    ec.standard(
        chk, rng,
        family_kw=dict(nstates=2, dense=1.0, guards=False, validators=False, nested=False, max_cbs=6),
        consts={"NI": 1, "MaxCalls": 2, "MaxFails": 0, "MaxActs": 0},
        required=("MCBegin", "MCEnd", "MCTrigDone", "MCReturn"),
        scen_fn=scenario, n_random=1500 if quick else 25000, n_hist=1000 if quick else 15000,
        fam_size=5 if quick else 30, shards=4 if quick else 12, label="results")
    ec.nonrtc_leg(chk, rng, 250 if quick else 4000, shards=2 if quick else 8)
    chk.coverage["rule"] = ("0-3 before x 0-3 on callbacks per transition in every style/provider, return values None / unique "
                            "truthy and falsy list objects, event-scoped callbacks on multi-event transitions, internal and self "
                            "transitions, tolerated unknown events, both engines; other groups return markers")
    return chk.finish()
