"""C06 - concurrent senders: mutual exclusion, exactly-once, nothing stranded.

Model: Dispatch.tla - put / try-acquire / check / pop / run / clear / release / re-check for N senders at
statement grain, threads mode (every step preemptible) and asyncio mode (switch only when a callback
suspends); invariants Mutex, ExactlyOnce, SenderFIFO, NothingStranded, DroppedNeverRun, LockOwner.  TLC
checks the protocol the code implements (re-check after release on both paths); the variants "pinned" (no
second look) and "normal" (second look on the normal path only) are kept in the model and are known to
violate NothingStranded - they are what the fix was chosen against.
Binding, code -> spec: real threading.Thread senders against one real machine, stepped at every line boundary
of the dispatch code by a sys.settrace handshake, all schedules with <= 2 (thorough: 3) preemptions; asyncio
tasks on a loop that runs one ready handle per iteration, all choice sequences.  Every execution's observable
lines (call / callback begin+end tagged with the executing sender / nested send / return / final state) are
validated by TLC against Trace_Dispatch.tla with the six invariants evaluated on the way.
Binding, spec -> code: behaviours sampled by TLC from Dispatch.tla are replayed on real threads with a
label-guided scheduler (labels found by source pattern: append / acquire / while-queue / popleft / clear /
release / if-queue) and validated the same way.
"""
import glob
import itertools
import json
import os
import random
import re
import shutil
from concurrent.futures import ProcessPoolExecutor

import dispatch
import enginecheck as ec
import framework
import tlc

INV = {0: "", 1: "Mutex", 2: "ExactlyOnce", 3: "SenderFIFO", 4: "NothingStranded", 5: "DroppedNeverRun",
       6: "LockOwner"}


def dispatch_cfg(path, senders, per, variant, mode, nested, fails, yields, trace=False, gated=()):
    with open(path, "w") as f:
        f.write(f"SPECIFICATION {'TSpec' if trace else 'DSpec'}\nCONSTANTS\n")
        f.write(f"  Senders = {{{', '.join(str(s) for s in range(1, senders + 1))}}}\n  PerSender = {per}\n")
        f.write(f'  Variant = "{variant}"\n  Mode = "{mode}"\n  MaxNested = {nested}\n  MaxFails = {fails}\n'
                f"  MaxYields = {yields}\n  Gated = {{{', '.join(str(g) for g in gated)}}}\n")
        if trace:
            f.write("CONSTRAINT Progress\nPOSTCONDITION Verdicts\n")
        else:
            for inv in list(INV.values())[1:]:
                f.write(f"INVARIANT {inv}\n")
            if mode == "threads" and variant in ("both", "pinned"):
                f.write("PROPERTY RefinesCore\n")     # Dispatch refines the counter abstraction proved by Apalache
        f.write("CHECK_DEADLOCK FALSE\n")


def mc(chk, senders, per, variant, mode, nested, fails, yields, expect_violation=False, timeout=1500, gated=()):
    wd = tlc.workdir("dmc")
    try:
        cfg = os.path.join(wd, "d.cfg")
        dispatch_cfg(cfg, senders, per, variant, mode, nested, fails, yields, gated=gated)
        rc, out, wall = tlc.run_tlc("Dispatch.tla", cfg, workers=16, extra=["-coverage", "1"], timeout=timeout)
        g, d = tlc.parse_stats(out)
        cov = tlc.parse_coverage(out)
        violated = re.search(r"Invariant (\w+) is violated", out)
        run = {"variant": variant, "mode": mode, "senders": senders, "per_sender": per, "nested": nested,
               "fails": fails, "yields": yields, "gated": list(gated), "distinct_states": d, "states_generated": g,
               "wall_s": round(wall, 1), "violated": violated.group(1) if violated else None,
               "action_counts": {k.split(".")[-1]: v[0] for k, v in cov.items() if k.startswith("Dispatch.")}}
        chk.coverage.setdefault("mc_runs", []).append(run)
        if expect_violation:
            if not violated:
                raise tlc.MachineryError(f"variant {variant} was expected to violate NothingStranded but TLC found nothing")
            return out
        chk.cov_add("states", d)
        chk.cov_add("transitions", g)
        if violated:
            chk.report({"kind": "spec_counterexample", "formula": violated.group(1)},
                       f"TLC: {violated.group(1)} is violated by the dispatch protocol (variant {variant}, {mode})",
                       {"tlc_log_tail": out[-6000:]})
        elif rc != 0:
            raise tlc.MachineryError(f"TLC failed on Dispatch.tla rc={rc}: {out[-800:]}")
        for act in ("Put", "Acquire", "Pop", "Rel", "Recheck", "Clear"):
            if fails == 0 and act == "Clear":
                continue
            if cov.get(f"Dispatch.{act}", (0, 0))[0] == 0:
                raise tlc.MachineryError(f"vacuity: Dispatch action {act} never taken")
        return out
    finally:
        shutil.rmtree(wd, ignore_errors=True)


def apalache(chk, quick):
    r"""Unbounded part: Apalache checks that Inv (TypeOK, LockOwner, Covered) of DispatchCore.tla - the counter abstraction that
    Dispatch.tla refines (TLC: RefinesCore) - is an inductive invariant for 3 senders and ANY number of events, and that it
    implies NothingStranded.  Obligations: Init => Inv; Inv /\ Next => Inv'; Inv => NothingStranded."""
    import subprocess
    import time
    obligations = [("Init => Inv", "MC_Core_TRUE.tla", ["--init=Init", "--inv=Inv", "--length=0"], True),
                   ("Inv /\\ Next => Inv'", "MC_Core_TRUE.tla", ["--init=IndInit", "--inv=Inv", "--length=1"], True),
                   ("Inv => NothingStranded", "MC_Core_TRUE.tla", ["--init=IndInit", "--inv=NothingStranded", "--length=0"], True)]
    if not quick:
        obligations.append(("pinned protocol: Inv is NOT inductive", "MC_Core_FALSE.tla",
                            ["--init=IndInit", "--inv=Inv", "--length=1"], False))
    done = []
    for name, module, args, expect_ok in obligations:
        wd = tlc.workdir("apa")
        t0 = time.time()
        try:
            p = subprocess.run(["apalache-mc", "check", "--cinit=ConstInit", *args, f"--out-dir={wd}", module],
                               cwd=tlc.SPEC_DIR, capture_output=True, text=True, timeout=900)
        except subprocess.TimeoutExpired:
            done.append({"obligation": name, "result": "timeout"})
            shutil.rmtree(wd, ignore_errors=True)
            continue
        shutil.rmtree(wd, ignore_errors=True)
        ok = "EXITCODE: OK" in p.stdout
        err = "EXITCODE: ERROR (12)" in p.stdout
        if not ok and not err:
            raise tlc.MachineryError(f"apalache failed on {name}: {p.stdout[-600:]}")
        done.append({"obligation": name, "result": "holds" if ok else "counterexample", "wall_s": round(time.time() - t0, 1)})
        if ok != expect_ok:
            chk.report({"kind": "apalache_obligation", "obligation": name},
                       f"Apalache: obligation `{name}` " + ("has a counterexample" if expect_ok else "unexpectedly holds"),
                       {"apalache_tail": p.stdout[-3000:]})
    chk.coverage["apalache_obligations"] = done


# ---- real executions ------------------------------------------------------------------------
def _run_thread_job(job):
    n, per, plan, sched = job[:4]
    try:
        r = dispatch.run_threads(n, per, plan, sched)
    except Exception as e:  # noqa: BLE001
        return {"error": str(e), "job": job}
    r["schedule"] = sched
    r["plan"] = plan
    r["mode"] = "threads"
    r["all_hot"] = job[4] if len(job) > 4 else True
    return r


def _run_async_job(job):
    n, per, plan, choices, yields = job
    try:
        r = dispatch.run_asyncio(n, per, plan, choices, yields)
    except Exception as e:  # noqa: BLE001
        return {"error": str(e), "job": job}
    r["schedule"] = choices
    r["plan"] = plan
    r["mode"] = "asyncio"
    return r


def explore_threads(pool, n, per, plan, max_preempt, cap, rng, hot_cap=None):
    base = _run_thread_job((n, per, plan, []))
    if "error" in base:
        raise tlc.MachineryError(base["error"])
    runs = [base]
    frontier = [base]
    for _ in range(max_preempt):
        hot, cold = [], []
        for r in frontier:
            last = r["schedule"][-1][0] if r["schedule"] else 0
            for g in range(last + 1, r["steps"] + 1):
                cur = r["who_at"][g - 1]
                for t in range(1, n + 1):
                    if t != cur:
                        # preemptions right before a line that touches the lock or the queue come first (a preemption
                        # elsewhere is equivalent to one at the next such line): a schedule is "hot" when all of its
                        # preemptions are; the others fill what is left of the budget
                        ishot = r["hot_at"][g - 1] and r.get("all_hot", True)
                        (hot if ishot else cold).append((n, per, plan, r["schedule"] + [(g, t)], ishot))
        jobs = hot + cold
        if cap and len(jobs) > cap:
            hcap = hot_cap or cap
            hot = hot if len(hot) <= hcap else rng.sample(hot, hcap)
            jobs = hot + (rng.sample(cold, min(len(cold), max(0, cap - len(hot)))))
        frontier = [r for r in pool.map(_run_thread_job, jobs, chunksize=64)]
        bad = [r for r in frontier if "error" in r]
        if bad:
            raise tlc.MachineryError(bad[0]["error"])
        runs += frontier
    return runs


def explore_asyncio(pool, n, per, plan, yields, cap):
    """All choice sequences (odometer over the numbers of ready handles met along the way)."""
    runs = []
    stack = [[]]
    seen = set()
    while stack and len(runs) < cap:
        batch = []
        while stack and len(batch) < 256:
            c = stack.pop()
            if tuple(c) in seen:
                continue
            seen.add(tuple(c))
            batch.append((n, per, plan, c, yields))
        for r in pool.map(_run_async_job, batch, chunksize=16):
            if "error" in r:
                raise tlc.MachineryError(r["error"])
            runs.append(r)
            taken = r["taken"]
            prefix = r["schedule"]
            # children: at every choice point beyond the forced prefix, try the other indices
            for k in range(len(prefix), len(taken)):
                nopt, idx = taken[k]
                base = [t[1] for t in taken[:k]]
                for alt in range(nopt):
                    if alt != idx:
                        stack.append(base + [alt])
    return runs


def validate(chk, runs, n, per, mode, label, shards=4):
    """TLC trace validation of a group of executions sharing (senders, per-sender, mode); one TLC configuration per set
    of gated senders."""
    groups = {}
    for r in runs:
        groups.setdefault(tuple(r["plan"].get("gated", [])), []).append(r)
    for gated, rs in groups.items():
        _validate(chk, rs, n, per, mode, label, shards, gated)


def _validate(chk, runs, n, per, mode, label, shards, gated):
    # many schedules lead to the same observable execution: each distinct one is validated once (the verdict is
    # about the observed lines only), and stands for all the schedules that produced it
    total = len(runs)
    first = {}
    for r in runs:
        first.setdefault(json.dumps(r["lines"], sort_keys=True), r)
    runs = list(first.values())
    chk.cov_add("distinct_executions_validated", len(runs))
    wd = tlc.workdir("dcfg")
    try:
        cfg = os.path.join(wd, "t.cfg")
        dispatch_cfg(cfg, n, per, "both", mode, 3, 3, 8, trace=True, gated=gated)
        vs, st = tlc.validate_batch(runs, module="Trace_Dispatch.tla", cfg=cfg, shards=shards, inv_names=INV,
                                    payload=lambda r: {"lines": r["lines"]})
    finally:
        shutil.rmtree(wd, ignore_errors=True)
    chk.cov_add("traces_validated_against_impl", total)
    chk.cov_add("trace_states", st["distinct"])
    chk.cov_add("states", st["distinct"])
    chk.cov_add("transitions", st["states"])
    nrej = 0
    for r, v in zip(runs, vs):
        if v["ok"]:
            if len(chk.samples) < 2:
                chk.add_sample({"label": label, "mode": mode, "senders": n, "per_sender": per, "plan": r["plan"],
                                "schedule": r["schedule"][:6], "lines": r["lines"]})
            continue
        nrej += 1
        lines = r["lines"]
        nxt = lines[v["matched"]] if v["matched"] < len(lines) else {"e": "<end>"}
        moves = lines[-1].get("moves")
        calls = sum(1 for ln in lines if ln["e"] == "call")
        begun = sum(1 for ln in lines if ln["e"] == "B")
        put_total = calls + sum(1 for ln in lines if ln["e"] == "N")
        failed = any(ln["e"] == "E" and ln["raised"] for ln in lines)
        feats = {"kind": "trace_rejected", "mode": mode, "at": nxt.get("e"), "inv": v["inv"], "gated": bool(gated),
                 "stranded": nxt.get("e") == "end" and begun < put_total and not failed,
                 "failure_in_run": failed, "label": label}
        chk.report(feats, f"{label} ({mode}, {n} senders x {per}): execution is not a behaviour of the dispatch "
                   f"protocol: matched {v['matched']} of {v['lines']} lines; first unexplained line {json.dumps(nxt)}; "
                   f"{begun} of {put_total} accepted events were processed; final state after {moves} moves"
                   + (f"; invariant {v['inv']} failed" if v["inv"] else ""),
                   {"mode": mode, "senders": n, "per_sender": per, "plan": r["plan"], "schedule": r["schedule"],
                    "observed": lines, "matched": v["matched"]})
    chk.cov_add("traces_rejected", nrej)


# ---- spec -> code ------------------------------------------------------------------------------
PC_RE = re.compile(r"/\\ pc = \((.*?)\)\n", re.S)
FAILED_RE = re.compile(r"/\\ failed = \{(.*?)\}\n", re.S)
ACT_RE = re.compile(r"\\\* <(\w+)\((\d+)\) line")
ACTION_LABEL = {"Put": "put", "Acquire": "acq", "Check": "chk", "Pop": "pop", "Clear": "clr", "Rel": "rel",
                "Recheck": "rck"}


def tlc_schedules(senders, per, fails, num, seed):
    """Sample behaviours of Dispatch.tla (the implemented variant) and turn each into a script of
    (sender, statement label) plus the set of failing events."""
    wd = tlc.workdir("dsim")
    try:
        cfg = os.path.join(wd, "d.cfg")
        dispatch_cfg(cfg, senders, per, "both", "threads", 0, fails, 0)
        prefix = os.path.join(wd, "tr")
        rc, out, wall = tlc.run_tlc("Dispatch.tla", cfg, workers=1, timeout=600,
                                    extra=["-simulate", f"file={prefix},num={num}", "-depth", "120", "-seed", str(seed)])
        scripts = []
        for path in sorted(glob.glob(prefix + "*")):
            txt = open(path).read()
            script = [(int(s), ACTION_LABEL[a]) for a, s in ACT_RE.findall(txt) if a in ACTION_LABEL]
            fl = FAILED_RE.findall(txt)
            failing = sorted({f"{s}:{n}" for s, n in re.findall(r"s \|-> (\d+), n \|-> (\d+)", fl[-1])}) if fl else []
            if script:
                scripts.append((script, failing))
        return scripts
    finally:
        shutil.rmtree(wd, ignore_errors=True)


def _run_guided_job(job):
    n, per, plan, script = job
    try:
        r = dispatch.run_threads_guided(n, per, plan, script)
    except Exception as e:  # noqa: BLE001
        return {"error": str(e), "job": job}
    r["schedule"] = script[:40]
    r["plan"] = plan
    return r


def run(pid, tier, seed, replay):
    chk = framework.Check(pid, tier, seed)
    quick = tier == "quick"
    rng = random.Random(6000 + seed)
    if replay:
        with open(replay) as f:
            rep = json.load(f)["replay"]
        if rep.get("mode") == "threads":
            r = _run_thread_job((rep["senders"], rep["per_sender"], rep["plan"], [tuple(x) for x in rep["schedule"]]))
        else:
            r = _run_async_job((rep["senders"], rep["per_sender"], rep["plan"], rep["schedule"], 1))
        validate(chk, [r], rep["senders"], rep["per_sender"], rep.get("mode", "threads"), "replay", shards=1)
        return chk.finish()

    # 1. the protocol itself (TLC, exhaustive)
    mc(chk, 2, 2, "both", "threads", 1, 1, 0)
    mc(chk, 3, 1, "both", "threads", 1, 1, 0)
    mc(chk, 3, 1, "both", "asyncio", 1, 1, 3)
    mc(chk, 2, 2, "both", "threads", 1, 1, 0, gated=(2,))
    mc(chk, 3, 1, "both", "asyncio", 0, 1, 2, gated=(2,))
    if not quick:
        # (3 senders x 2 events with a nested send AND a failure does not finish in an hour; each on its own does:
        #  22M and 15M distinct states)
        mc(chk, 3, 2, "both", "threads", 0, 1, 0, timeout=3000)
        mc(chk, 3, 2, "both", "threads", 1, 0, 0, timeout=3000)
        mc(chk, 4, 1, "both", "asyncio", 1, 1, 3, timeout=3000)
    apalache(chk, quick)
    # the rejected designs stay documented by their counterexamples
    mc(chk, 2, 1, "pinned", "threads", 0, 0, 0, expect_violation=True)
    mc(chk, 2, 1, "normal", "threads", 0, 1, 0, expect_violation=True)

    plans = [{}, {"nested": ["1:1"]}, {"fail": ["1:1"]}, {"fail": ["2:1"], "nested": ["1:1"]},
             # a tolerant machine and a sender whose event only exists once the machine has moved: it fires or is ignored
             # according to the state WHEN ITS TURN COMES, whatever the state was when it was sent
             {"gated": [2]}, {"gated": [2], "fail": ["1:1"]},
             # a listener without callbacks attached from inside a callback, while other senders are around
             {"listen": ["1:1"], "nested": ["1:1"]}]
    with ProcessPoolExecutor(max_workers=14) as pool:
        # 2. real threads, bounded preemption at every line boundary of the dispatch code
        for (n, per) in [(2, 1), (2, 2), (3, 1)]:
            runs = []
            for plan in plans:
                if per == 1 and "2:1" in plan.get("fail", []) and n < 2:
                    continue
                cap = (300 if quick else 20000) if (n, per) != (2, 1) else (1200 if quick else None)
                runs += explore_threads(pool, n, per, plan, 2 if quick else (3 if (n, per) == (2, 1) else 2), cap, rng,
                                        hot_cap=(3000 if quick else None))
            chk.cov_add("thread_schedules", len(runs))
            validate(chk, runs, n, per, "threads", "thread schedules", shards=4 if quick else 12)
        # 3. asyncio tasks, every choice of ready handle
        for (n, per, yields) in [(2, 1, 1), (3, 1, 1), (2, 2, 1)] + ([] if quick else [(3, 1, 2), (4, 1, 1)]):
            runs = []
            for plan in (plans[:3] + plans[4:5] + plans[6:7]) if quick else plans:
                runs += explore_asyncio(pool, n, per, plan, yields, cap=300 if quick else 8000)
            chk.cov_add("asyncio_schedules", len(runs))
            pend = [r for r in runs if r.get("pending")]
            for r in pend[:3]:
                chk.report({"kind": "orphan_tasks", "mode": "asyncio"}, "tasks still pending after all senders returned",
                           {"plan": r["plan"], "schedule": r["schedule"], "observed": r["lines"]})
            validate(chk, runs, n, per, "asyncio", "asyncio schedules", shards=4 if quick else 12)
        # 4. schedules generated by TLC from the specification, replayed on real threads
        guided = []
        for (n, per, fails) in [(2, 1, 0), (2, 1, 1), (2, 2, 0)]:
            for script, failing in tlc_schedules(n, per, fails, 80 if quick else 1500, seed):
                guided.append((n, per, {"fail": failing} if failing else {}, script))
        res = list(pool.map(_run_guided_job, guided, chunksize=16))
        bad = [r for r in res if "error" in r]
        if bad:
            raise tlc.MachineryError(bad[0]["error"])
        followed = sum(r["followed"] for r in res)
        total = sum(r["script_len"] for r in res)
        chk.coverage["spec_behaviours_replayed"] = len(res)
        chk.coverage["spec_schedule_steps_followed"] = f"{followed}/{total}"
        for key, grp in itertools.groupby(sorted(res, key=lambda r: (r["senders"], r["per"])),
                                          key=lambda r: (r["senders"], r["per"])):
            validate(chk, list(grp), key[0], key[1], "threads", "TLC schedules replayed", shards=2)
    chk.coverage["rule"] = ("threads: every schedule with <=2 preemptions (thorough: 3 for 2x1) over all line boundaries of "
                            "Event.__call__/send/put/processing_loop and the callbacks, shapes 2x1, 2x2, 3x1 senders x events, plans: "
                            "plain / nested send / failing callback / both; asyncio: all ready-handle choice sequences for 2-4 tasks "
                            "with suspending callbacks; plus TLC-sampled schedules replayed by statement label")
    chk.assumptions += ["CPython switches threads only between bytecodes; deque.append/popleft and Lock.acquire/release are atomic",
                        "preemption points are line boundaries (a line is the unit of atomicity explored)"]
    return chk.finish()
